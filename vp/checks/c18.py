"""C18 - export, summary and cost are observers: they do not change the model.

Histories of observer calls (and forward / training steps as mutators) are interpreted on a
model A; a twin B built from the same seeds takes only the mutators.  After every observer the
snapshot of A (eval output on a deep copy, all cost values, gradient of the cost, summary,
state_dict, training flags) must be unchanged; at the end A and B must be bit-identical.
"""
from __future__ import annotations

import copy
import itertools

from hypothesis import strategies as st

from .. import masks as mk
from .. import mpsutil as mu
from .. import netgen as ng
from .. import pitutil as pu
from .. import snutil as su
from ..core import Check, Part, Result, must, safe_deepcopy

OBSERVERS = ['export', 'export_nobn', 'summary', 'cost', 'get_cost', 'swap_spec', 'str']
MUTATORS = ['forward', 'step', 'train', 'eval', 'mixed_mode', 'nas_only', 'net_only', 'poke']
ALPHABET = OBSERVERS + MUTATORS


def ops_strategy(max_len=8):
    return st.lists(st.sampled_from(ALPHABET + OBSERVERS), min_size=1, max_size=max_len)


# ----------------------------------------------------------------------------------------
# model adapters
# ----------------------------------------------------------------------------------------
class Adapter:
    """Builds twin models of one method from a case and knows its cost names."""

    def __init__(self, method, case):
        self.method = method
        self.case = case
        spec = case['spec']
        import plinio.cost as pc
        if method == 'pit':
            self.specs = {'params': pc.params, 'ops': pc.ops}
            self.alt = {'params': pc.params_no_bias, 'ops': pc.ops_no_bias}
        elif method == 'supernet':
            self.specs = {'params': pc.params, 'ops': pc.ops}
            self.alt = {'params': pc.params_no_bias, 'ops': pc.ops_no_bias}
        else:
            self.specs = {'size': pc.params_bit, 'bitops': pc.ops_bit}
            self.alt = {'size': pc.ops_bit, 'bitops': pc.params_bit}
        self.spec = spec

    def build(self):
        c = self.case
        if self.method == 'pit':
            net, m, x0 = pu.build_pit(self.spec, c['wseed'], cost=dict(self.specs),
                                      full_cost=c['full_cost'], fold_bn=c.get('fold_bn', False),
                                      discrete_cost=c.get('discrete', False))
            mk.apply_pit_masks(m, self.spec, c['masks'], c['vseed'], pu.fixed_ids(self.spec))
        elif self.method == 'supernet':
            net, m, x0 = su.build_sn(self.spec, c['wseed'], cost=dict(self.specs),
                                     full_cost=c['full_cost'])
            su.set_winner_coefficients(m, self.spec, c['winners'], c['vseed'])
        else:
            m, x0 = mu.build_mps(self.spec, c['wseed'], c['w_prec'], c['a_prec'],
                                 per_channel=c['per_channel'], cost=dict(self.specs),
                                 full_cost=c['full_cost'])
            mu.set_coefficients(m, c['vseed'])
        m.train_net_and_nas()
        return m, x0

    def probe(self, seed=3):
        if self.method == 'mps':
            return mu.mps_input(self.spec, seed)
        return ng.make_input(self.spec, seed, batch=2)


def snapshot(ad: Adapter, m, rev=False):
    """rev: read the metrics in the opposite order ('in any order' - a value must not depend on
    which metric was read first)."""
    import torch
    snap = {}
    try:
        twin = safe_deepcopy(m).eval()
        with torch.no_grad():
            snap['eval_output'] = ng.call(twin, ad.probe())
        snap['copy_error'] = None
    except Exception as e:  # noqa  - reported through snap_diff, never swallowed
        snap['eval_output'] = None
        snap['copy_error'] = f"{type(e).__name__}: {str(e)[:120]}"
    costs = {}
    grads = {}
    params = [p for p in m.nas_parameters() if p.requires_grad]
    errors = []
    for name in (list(ad.specs)[::-1] if rev else list(ad.specs)):
        # a cost that cannot be read or differentiated any more is an observation too (an
        # exception here must become a discrepancy of the history, not a harness error)
        try:
            c = m.get_cost(name)
            costs[name] = float(c)
        except Exception as e:  # noqa
            costs[name] = f"raised:{type(e).__name__}"
            grads[name] = 'no-grad'
            errors.append(f"cost-read:raised:{type(e).__name__}: {str(e)[:160]}")
            continue
        if c.requires_grad and params:
            try:
                g = torch.autograd.grad(c, params, allow_unused=True, retain_graph=True)
                grads[name] = [None if t is None else t.clone() for t in g]
            except Exception as e:  # noqa
                grads[name] = f"raised:{type(e).__name__}"
                errors.append(f"cost-gradient:raised:{type(e).__name__}: {str(e)[:160]}")
        else:
            grads[name] = 'no-grad'
    snap['errors'] = errors
    snap['costs'] = costs
    snap['cost_grads'] = grads
    snap['summary'] = repr(m.summary())
    snap['state'] = {k: v.detach().clone() for k, v in m.state_dict().items()}
    snap['training'] = [(n, mod.training) for n, mod in m.named_modules()]
    snap['requires_grad'] = [(n, p.requires_grad) for n, p in m.named_parameters()]
    snap['spec_names'] = sorted(m.cost_specification.keys())
    return snap


def snap_diff(a, b):
    import torch
    if a['copy_error'] != b['copy_error']:
        return 'model-can-no-longer-be-deep-copied', {'error': b['copy_error']}
    if a['training'] != b['training']:
        ch = [n for (n, t), (_, t2) in zip(a['training'], b['training']) if t != t2]
        return 'training-mode-changed', {'modules': ch[:5]}
    if a['requires_grad'] != b['requires_grad']:
        ch = [n for (n, t), (_, t2) in zip(a['requires_grad'], b['requires_grad']) if t != t2]
        return 'trainability-flags-changed', {'parameters': ch[:5]}
    if list(a['state']) != list(b['state']):
        return 'state-dict-keys-changed', {}
    for k in a['state']:
        if not torch.equal(a['state'][k], b['state'][k]):
            return 'parameters-or-buffers-changed', {'entry': k}
    if a['costs'] != b['costs']:
        return 'cost-value-changed', {'before': a['costs'], 'after': b['costs']}
    for name in a['cost_grads']:
        ga, gb = a['cost_grads'][name], b['cost_grads'][name]
        if isinstance(ga, str) or isinstance(gb, str):
            if ga != gb:
                return 'cost-gradient-lost', {'metric': name}
            continue
        for x, y in zip(ga, gb):
            if (x is None) != (y is None) or (x is not None and not torch.equal(x, y)):
                return 'cost-gradient-changed', {'metric': name}
    if a['summary'] != b['summary']:
        return 'summary-changed', {}
    if a['eval_output'] is not None and not torch.equal(a['eval_output'], b['eval_output']):
        return 'eval-output-changed', {'max_abs': float((a['eval_output'] -
                                                         b['eval_output']).abs().max())}
    return None


def _reraise(e):
    raise e


def do_mutator(ad: Adapter, m, op, k):
    """Applies a mutator identically to A and B (RNG reseeded per step)."""
    import torch
    torch.manual_seed(1000 + k)
    x = ad.probe(seed=10 + k)
    if op == 'forward':
        ng.call(m, x)
    elif op == 'train':
        m.train()
    elif op == 'eval':
        m.eval()
    elif op == 'mixed_mode':
        # fine-tuning style: the model trains while every other leaf module is frozen in eval mode
        m.train()
        leaves = [mod for _, mod in m.named_modules() if not list(mod.children())]
        for mod in leaves[1::2]:
            mod.eval()
    elif op == 'poke':
        # the architectural parameters are rewritten by hand THROUGH .data (the library's own
        # idiom; no version-counter bump): every mask / coefficient vector is reversed
        with torch.no_grad():
            for n, p in m.named_nas_parameters():
                if n.rsplit('.', 1)[-1] in ('alpha', 'beta', 'gamma') and p.dim() >= 1 \
                        and p.shape[0] > 1:
                    p.data.copy_(p.data.flip(0).clone())
        torch.manual_seed(3000 + k)
        ng.call(m, x)
    elif op == 'nas_only':
        m.train_nas_only()          # a search phase with the network weights frozen
    elif op == 'net_only':
        m.train_net_only()          # warm-up / fine-tuning phase
    elif op == 'step':
        params = [p for p in m.parameters() if p.requires_grad]
        y = ng.call(m, x)
        loss = (y ** 2).mean() + 1e-4 * sum(m.get_cost(n) for n in ad.specs)
        if not params or not loss.requires_grad:
            return                  # nothing trains in this phase
        opt = torch.optim.SGD(params, lr=1e-2)
        opt.zero_grad()
        loss.backward()
        # bounded update: no history of steps may diverge (NaN parameters compare unequal to
        # themselves and would look like an observer effect)
        gs = [p.grad for p in params if p.grad is not None]
        if gs and all(bool(torch.isfinite(g).all()) for g in gs):
            torch.nn.utils.clip_grad_norm_(params, 1.0)
            opt.step()
        # a fresh forward re-samples the coefficients: the graph of the previous sample was freed
        torch.manual_seed(2000 + k)
        ng.call(m, x)


def structure(mod):
    return [(n, type(mm).__name__, [tuple(p.shape) for p in mm.parameters(recurse=False)])
            for n, mm in mod.named_modules()]


def run_history(ad: Adapter, ops, res: Result):
    import torch
    A, x0 = ad.build()
    B, _ = ad.build()
    # one forward so that sampled coefficients / ranges exist; in training mode for half of the
    # models (the usual situation: export / summary / cost are called from inside a training loop)
    # ... and for some models no forward at all (observers called on a freshly built wrapper)
    for m in (A, B):
        m.train(bool(ad.case.get('init_train', False)))
        if ad.case.get('init_forward', True):
            torch.manual_seed(999)
            ng.call(m, ad.probe(seed=9))
    base = snapshot(ad, A)
    if base['errors']:
        # the snapshot itself reads every metric and its gradient once: if that already fails the
        # model cannot be observed at all
        res.bad('cost-is-not-an-observer:' + base['errors'][0].split(': ')[0],
                after_ops=[], message=base['errors'][0])
        return 0
    last_export = None
    n_obs = 0
    for k, op in enumerate(ops):
        if op in MUTATORS:
            for m in (A, B):
                r = must(res, op, do_mutator, ad, m, op, k)
            if res.discrepancies:
                return n_obs
            base = snapshot(ad, A)
            last_export = None
            continue
        n_obs += 1
        if op in ('export', 'export_nobn'):
            kw = {'add_bn': False} if (op == 'export_nobn' and ad.method == 'pit') else {}
            try:
                e = A.export(**kw)
            except Exception as ex:  # noqa
                # whether this architecture CAN be exported is the business of C01/C02/C03/C08;
                # here it counts only if the observers caused it: the never-observed twin is the
                # control (a deep copy of it, so that the twin itself stays un-observed)
                try:
                    safe_deepcopy(B).export(**kw)
                    control_ok = True
                except Exception as ex2:  # noqa
                    control_ok = type(ex2) is not type(ex)
                if control_ok:
                    must(res, 'export', _reraise, ex)
                else:
                    res.discarded = 'export-unsupported-for-this-model'
                return n_obs
            st_e = structure(e)
            with torch.no_grad():
                ye = must(res, 'exported-forward', ng.call, copy.deepcopy(e).eval(), ad.probe())
            if ye is None:
                return n_obs
            if last_export is not None and last_export[0] == op:
                if st_e != last_export[1]:
                    res.bad('repeated-exports-differ-in-structure', op=op)
                elif not torch.equal(ye, last_export[2]):
                    res.bad('repeated-exports-differ-in-output', op=op,
                            max_abs=float((ye - last_export[2]).abs().max()))
            last_export = (op, st_e, ye)
        elif op == 'summary':
            must(res, 'summary', A.summary)
        elif op == 'str':
            must(res, 'str', str, A)
        elif op == 'cost':
            for n in ad.specs:
                must(res, 'cost', A.get_cost, n)
        elif op == 'get_cost':
            n = sorted(ad.specs)[k % len(ad.specs)]
            c = must(res, 'cost', A.get_cost, n)
            if c is not None and c.requires_grad:
                params = [p for p in A.nas_parameters() if p.requires_grad]
                if params:
                    must(res, 'cost-gradient', torch.autograd.grad, c, params, allow_unused=True,
                         retain_graph=True)
        elif op == 'swap_spec':
            A.cost_specification = dict(ad.alt)
            swapped = {n: must(res, 'cost', A.get_cost, n) for n in ad.alt}
            A.cost_specification = dict(ad.specs)
            if not any(o in MUTATORS for o in ops[:k]) and None not in swapped.values():
                # while swapped, the values are those of a model built with the other specs
                main = ad.specs
                ad.specs = ad.alt
                try:
                    C, _ = ad.build()
                    C.train(bool(ad.case.get('init_train', False)))
                    if ad.case.get('init_forward', True):
                        torch.manual_seed(999)
                        ng.call(C, ad.probe(seed=9))
                    for n, v in swapped.items():
                        if float(v) != float(C.get_cost(n)):
                            res.bad('swapped-cost-specification-not-in-effect', metric=n,
                                    got=float(v), want=float(C.get_cost(n)))
                finally:
                    ad.specs = main
        now = snapshot(ad, A, rev=True)
        if now['errors'] and not base['errors']:
            res.bad(f"{op}-is-not-an-observer:" + now['errors'][0].split(': ')[0],
                    after_ops=ops[:k + 1], message=now['errors'][0])
            return n_obs
        d = snap_diff(base, now)
        if d is not None:
            res.bad(f"{op}-is-not-an-observer:{d[0]}", after_ops=ops[:k + 1], **d[1])
            return n_obs
    # the search continued exactly as if the observers had not been called
    sa, sb = A.state_dict(), B.state_dict()
    for key in sa:
        if key not in sb or not torch.equal(sa[key], sb[key]):
            res.bad('twin-diverged-after-observers', entry=key)
            break
    if [(n, t.training) for n, t in A.named_modules()] != [(n, t.training)
                                                           for n, t in B.named_modules()]:
        res.bad('twin-training-flags-diverged')
    if [(n, p.requires_grad) for n, p in A.named_parameters()] != [
            (n, p.requires_grad) for n, p in B.named_parameters()]:
        res.bad('twin-trainability-flags-diverged')
    # ... and what the observed model reports / exports NOW is what its never-observed twin does
    # (an observer that leaves something behind for later observer calls shows up here)
    if not res.discrepancies and n_obs:
        sa, sb = must(res, 'summary', A.summary), must(res, 'summary', B.summary)
        if sa is not None and sb is not None and repr(sa) != repr(sb):
            res.bad('observed-model-reports-another-architecture-than-its-unobserved-twin')
        else:
            def _exp(m):
                try:
                    return structure(m.export())
                except Exception as ex:  # noqa
                    return f"raised:{type(ex).__name__}"
            if _exp(A) != _exp(B):
                res.bad('observed-model-exports-another-network-than-its-unobserved-twin')
    return n_obs


# ----------------------------------------------------------------------------------------
# cases
# ----------------------------------------------------------------------------------------
@st.composite
def pit_cases(draw):
    fam = draw(st.sampled_from(['1d', '2d']))
    spec = draw(ng.netspecs(ng.Profile(family=fam, pads=('causal', 'same'), exclude=True,
                                       reuse=True, max_blocks=3, min_blocks=2, dropout=False,
                                       fixtures=True)))
    return {'method': 'pit', 'spec': spec, 'masks': draw(mk.pit_masks(spec, pu.fixed_ids(spec))),
            'full_cost': draw(st.booleans()), 'fold_bn': draw(st.booleans()),
            'discrete': draw(st.booleans()), 'wseed': draw(st.integers(0, 20)),
            'vseed': draw(st.integers(0, 20)), 'ops': draw(ops_strategy()),
            'init_train': draw(st.booleans()), 'init_forward': draw(st.integers(0, 3)) > 0}


@st.composite
def sn_cases(draw):
    spec = draw(su.sn_specs(max_sn=2, functional_tail=True, max_branches=5))
    return {'method': 'supernet', 'spec': spec, 'winners': draw(su.winners_for(spec)),
            'full_cost': draw(st.booleans()), 'wseed': draw(st.integers(0, 20)),
            'vseed': draw(st.integers(0, 20)), 'ops': draw(ops_strategy()),
            'init_train': draw(st.booleans()), 'init_forward': draw(st.integers(0, 3)) > 0}


@st.composite
def mps_cases(draw):
    prof = mu.profile()
    prof.dropout = False
    spec = mu.fix_tail(draw(ng.netspecs(prof)))
    return {'method': 'mps', 'spec': spec, 'per_channel': draw(st.booleans()),
            'w_prec': draw(mu.precisions), 'a_prec': draw(mu.precisions),
            'full_cost': draw(st.booleans()), 'wseed': draw(st.integers(0, 20)),
            'vseed': draw(st.integers(0, 20)), 'ops': draw(ops_strategy()),
            'init_train': draw(st.booleans()), 'init_forward': draw(st.integers(0, 3)) > 0}


def oracle(case) -> Result:
    res = Result()
    ad = Adapter(case['method'], case)
    n_obs = run_history(ad, case['ops'], res)
    kinds = set(case['ops'])
    res.nontrivial = n_obs >= 1 and bool(kinds & set(MUTATORS) or n_obs >= 2)
    res.ev(*[f"op:{o}" for o in kinds], 'full_cost' if case['full_cost'] else 'nas_cost')
    res.obs = {'observer_calls': n_obs, 'ops': case['ops']}
    return res


# -- exhaustive short histories on one fixed model per method -----------------------------
FIXED = {
    'pit': {'method': 'pit', 'init_train': True, 'full_cost': True, 'fold_bn': False, 'discrete': False, 'wseed': 1,
            'vseed': 1,
            'spec': {'family': '1d', 'inputs': [[2, 10]], 'out': 'n4', 'nodes': [
                {'id': 'n0', 'op': 'conv1d', 'in': ['x'], 'k': 4, 'dil': 1, 'stride': 1,
                 'pad': 'causal', 'cout': 4, 'bias': True, 'bn': True, 'groups': 1},
                {'id': 'n1', 'op': 'relu', 'in': ['n0'], 'variant': 'mod'},
                {'id': 'n2', 'op': 'conv1d', 'in': ['n1'], 'k': 3, 'dil': 2, 'stride': 1,
                 'pad': 'causal', 'cout': 4, 'bias': False, 'bn': False, 'groups': 1,
                 'excl': True},
                {'id': 'n3', 'op': 'add', 'in': ['n2', 'n1'], 'variant': 'op'},
                {'id': 'n4', 'op': 'conv1d', 'in': ['n3'], 'k': 1, 'dil': 1, 'stride': 1,
                 'pad': 'none', 'cout': 2, 'bias': True, 'bn': False, 'groups': 1}]},
            'masks': {'g': {'n0': [True, False, True, True]}, 't': {'n0': [1, 1], 'n4': [0, 0]}}},
    'pit2d': {'method': 'pit', 'full_cost': False, 'fold_bn': True, 'discrete': True, 'wseed': 2,
              'vseed': 2,
              'spec': {'family': '2d', 'inputs': [[2, 6, 6]], 'out': 'n4', 'nodes': [
                  {'id': 'n0', 'op': 'conv2d', 'in': ['x'], 'k': 3, 'p': 1, 'stride': 1, 'cout': 4,
                   'bias': True, 'bn': True, 'groups': 1},
                  {'id': 'n1', 'op': 'conv2d', 'in': ['n0'], 'k': 3, 'p': 1, 'stride': 1, 'cout': 4,
                   'bias': False, 'bn': False, 'groups': 4},
                  {'id': 'n2', 'op': 'gap', 'in': ['n1']},
                  {'id': 'n3', 'op': 'flatten', 'in': ['n2'], 'variant': 'mod'},
                  {'id': 'n4', 'op': 'linear', 'in': ['n3'], 'cout': 3, 'bias': True, 'bn': False}]},
              'masks': {'g': {'n0': [False, True, False, True]}, 't': {}}},
    'supernet': {'method': 'supernet', 'init_train': True, 'full_cost': True, 'wseed': 1, 'vseed': 1,
                 'winners': {'n1': 1},
                 'spec': {'family': '2d', 'inputs': [[2, 5, 5]], 'out': 'n2', 'nodes': [
                     {'id': 'n0', 'op': 'conv2d', 'in': ['x'], 'k': 3, 'p': 1, 'stride': 1,
                      'cout': 3, 'bias': True, 'bn': True, 'groups': 1},
                     {'id': 'n1', 'op': 'snmodule', 'in': ['n0'], 'cout': 3, 'gumbel': True,
                      'hard': False, 'branches': [{'kind': 'conv', 'k': 3, 'bias': True},
                                                  {'kind': 'block', 'mid': 2, 'tail': 'func'},
                                                  {'kind': 'identity'}]},
                     {'id': 'n2', 'op': 'conv2d', 'in': ['n1'], 'k': 1, 'p': 0, 'stride': 1,
                      'cout': 2, 'bias': True, 'bn': False, 'groups': 1}]}},
    'mps': {'method': 'mps', 'init_train': True, 'full_cost': False, 'wseed': 1, 'vseed': 1, 'per_channel': True,
            'w_prec': [2, 8, 0], 'a_prec': [4, 8],
            'spec': {'family': '2d', 'inputs': [[2, 5, 5]], 'out': 'n3', 'nodes': [
                {'id': 'n0', 'op': 'conv2d', 'in': ['x'], 'k': 3, 'p': 1, 'stride': 1, 'cout': 4,
                 'bias': True, 'bn': True, 'groups': 1},
                {'id': 'n1', 'op': 'relu', 'in': ['n0'], 'variant': 'mod'},
                {'id': 'n2', 'op': 'conv2d', 'in': ['n1'], 'k': 1, 'p': 0, 'stride': 1, 'cout': 4,
                 'bias': False, 'bn': False, 'groups': 1},
                {'id': 'n3', 'op': 'add', 'in': ['n2', 'n1'], 'variant': 'op'}]}},
}


def _fixed_models():
    yield from FIXED.items()
    # the same MPS / SuperNet models observed before any forward pass, in eval mode
    for name in ('mps', 'supernet'):
        yield name + '-cold', dict(FIXED[name], init_train=False, init_forward=False)


def enum_short(tier):
    L = 2 if tier == 'quick' else 3
    for _name, base in _fixed_models():
        for n in range(1, L + 1):
            for seq in itertools.product(ALPHABET, repeat=n):
                if not any(o in OBSERVERS for o in seq):
                    continue
                yield dict(base, ops=list(seq))


CHECK = Check(
    prop='C18',
    parts=[
        Part('short-histories', oracle, enumerate=enum_short, enum_parallel=True,
             shards={'quick': 8, 'thorough': 16},
             exhaustive_note='ALL sequences of length <= 2 (thorough: <= 3) over the 15-letter '
                             'alphabet containing at least one observer, on one fixed model per '
                             'method (MPS and SuperNet also before any forward pass)'),
        Part('pit', oracle, strategy=pit_cases(),
             budget={'quick': 60, 'thorough': 400}, shards={'quick': 1, 'thorough': 16}),
        Part('supernet', oracle, strategy=sn_cases(),
             budget={'quick': 60, 'thorough': 400}, shards={'quick': 1, 'thorough': 16}),
        Part('mps', oracle, strategy=mps_cases(),
             budget={'quick': 50, 'thorough': 400}, shards={'quick': 1, 'thorough': 16}),
    ],
    rule=("Histories of 1..8 calls over {export, export(add_bn=False), summary, str, cost (all "
          "names), get_cost(name)+gradient, set cost_specification and back} (observers) and "
          "{forward, training step, train(), eval(), mixed per-module modes} (mutators) on generated PIT / SuperNet / MPS "
          "models with drawn masks / coefficients, full_cost on/off, dictionary cost specs. After "
          "every observer the snapshot of the model (eval output on a deep copy, every cost value, "
          "gradient of every cost w.r.t. the architectural parameters, summary, state_dict, "
          ".training of every module) must be bit-identical to the one before; consecutive exports "
          "must be structurally identical with equal outputs; a twin model that receives only the "
          "mutators (same RNG seeds) must end bit-identical. Non-trivial = at least one observer "
          "call and either a mutator in the history or >= 2 observer calls; distinct by case hash."),
    assumptions=[
        "dropout is excluded from these nets (a deep copy's eval output is the reference)",
        "the snapshot itself calls get_cost/summary/state_dict: if those were mutators the twin "
        "comparison at the end still detects it",
    ],
)
