"""Generates /verif/MANIFEST.json from the table below (python -m vp.manifest)."""
import json
import os

ROOT = os.path.dirname(os.path.dirname(os.path.abspath(__file__)))

BASELINE_OFF = ("cd /repo && env -u EML_EDA_PLINIO_VERIF /venv/bin/python -m pytest -ra -q "
                "-p no:cacheprovider --timeout=900 --continue-on-collection-errors")

# property -> (technique, level text, level note, design ref)
CHECKS = {
    'C15': ("exhaustive enumeration of registration orders + Hypothesis interleavings vs a "
            "reference model of the documented lookup rule",
            "Every ordered subset of the four pattern kinds x every spec x both defaults is "
            "enumerated (finite domain, complete), once with all registrations first and once "
            "with a lookup after every registration (every prefix), every built-in CostSpec is re-registered in "
            "every order, and Hypothesis interleaves registrations for several layer types; the "
            "oracle is an independent reference model of the README rule.",
            "Trusts the harness' reference model of the documented rule; each pattern registered "
            "at most once per type.",
            "DESIGN.md 4/C15"),
    'C01': ("differential testing (PIT eval vs exported network) over Hypothesis-generated NetSpec "
            "networks and mask patterns + exhaustive time-mask enumeration",
            "Generated-input search: thousands of small networks from a grammar of the supported ops, "
            "each with a drawn alive/dead pattern per width group and a (prefix, comb-step) time mask "
            "per Conv1d; oracle = the exported plain network (BN statistics transplanted as the "
            "property allows) must reproduce the PIT eval output to 1e-4 relative and its layer "
            "hyper-parameters must equal summary() and an independent reference derived from the "
            "drawn pattern. All reachable binarised time masks for K<=9 (thorough <=12) are "
            "enumerated exhaustively on 1/2-layer TCNs.",
            "Float32 tolerance 1e-4*(1+max|y|); inputs sampled (seeded normals x {0.1,1,10}); CPU only; "
            "grammar restricted to ops/paddings the README declares supported.",
            "DESIGN.md 4/C01"),
    'C04': ("Hypothesis-generated networks/masks; PIT discrete cost vs from-scratch metric counter "
            "on the exported network (numel of real tensors, MACs via forward hooks)",
            "Generated-input search over the C01 grammar (plus same-padded Conv1d, twice-applied "
            "layers, full_cost, dict specs); the oracle shares no code with plinio for params/ops "
            "(+no-bias): it counts actual exported tensors and per-call-site output positions; "
            "gap8 is the registered function re-evaluated on exported layers.",
            "gap8 reference re-uses plinio's gap8 formula (only the plumbing of effective sizes is "
            "checked for it); relative tolerance 1e-4.",
            "DESIGN.md 4/C04"),
    'C08': ("Hypothesis-generated networks with adversarial real mask-parameter vectors + exhaustive "
            "fully-pruned/open sweep for kernel sizes 1..12; validity oracle on summary/export/forward",
            "Generated-input search: every mask parameter (also of frozen maskers) is drawn from an "
            "adversarial real set (0, +-tiny, +-0.49/0.5/0.51, +-1e30, +-3.4e38, arbitrary float32) or "
            "set uniformly; the oracle is a validity predicate (>=1 feature, >=1 tap, dilation>=1, "
            "frozen groups at full width per an independent width-group analysis, export succeeds, "
            "exported net runs and returns the original output shape, sizes equal summary()). The "
            "all-pruned/open/single-element-pruned combinations are enumerated exhaustively for "
            "K=1..12 x stride x dilation x padding.",
            "NaN/inf excluded (not reals); frozen-ness decided by the harness' reference analysis of "
            "the NetSpec.",
            "DESIGN.md 4/C08"),
    'C09': ("Hypothesis-generated DAGs and channel masks; reference alive-feature propagation over the "
            "NetSpec vs calculators, summary, charged features, exported widths and observed signal",
            "Generated-input search over DAG-heavy networks (add, 2..3-way concat of searchable/"
            "fixed/input tensors, time concat, flatten/squeeze, depthwise, stand-alone BN, repeated "
            "layers) with exclusion by name, by type, or import mode; the oracle is an independent "
            "boolean alive-mask propagation compared element-wise with what each converted layer "
            "reports, is charged for and is exported with, plus a dynamic cross-check of which "
            "channels actually carry signal and a forward pass of the exported network.",
            "Reference propagation written from the property statement; dynamic cross-check skipped "
            "in nets with stand-alone BN (zeros become constants by design).",
            "DESIGN.md 4/C09"),
    'C02': ("differential testing (MPS eval vs exported fake-quantised network, bit-exact) over "
            "Hypothesis-generated networks, precision tuples and coefficients",
            "Generated-input search: 2-D and (1 in 4) 1-D networks from the grammar with random precision tuples, "
            "coefficient vectors (random arg-max, gaps >= 0.05), temperature, gumbel/hard flags and "
            "optionally a training forward first; oracle = torch.equal between MPS eval output and "
            "exported output on inputs straddling both clamps, exported precisions == summary(), "
            "and a consumer/producer precision rule checked on the exported fx graph by an "
            "independent graph walk; a second input and a repeated call check that the exported network "
            "is a pure function of its input.",
            "Per-layer weight search only (property domain); inputs sampled; CPU only.",
            "DESIGN.md 4/C02"),
    'C05': ("Hypothesis-generated networks/assignments; MPS cost vs exact bit-cost recomputed from "
            "summary() with a reference alive-feature propagation; probing CostSpec records what "
            "cost functions are shown",
            "Generated-input search (2-D and 1-D networks) over per-layer and per-channel (with/without 0-bit) searches in "
            "eval and train+hard mode; oracle = from-scratch params_bit/ops_bit formulas driven "
            "only by summary() and the NetSpec (0-bit channels dead, propagated through "
            "add/flatten/depthwise), registered mpic/ne16 functions on exact per-precision specs, "
            "and a probing spec asserting in/out feature counts under the PyTorch names per layer "
            "type. Coefficients of any sign and magnitude (x1/x4/x30), written with copy_ or "
            "through .data; on half of the models another assignment is evaluated first and/or "
            "export() is called before the cost is read; hand-over mode drawn. One open known "
            "finding (0-bit double discount) is classified narrowly and counted.",
            "mpic/ne16 references re-use the registered hardware formula (C16 checks the formula); "
            "tolerance 1e-4 relative.",
            "DESIGN.md 4/C05"),
    'C13': ("Hypothesis-generated tensors + exhaustive level-boundary sweep through the quantizers; "
            "range / integrality / monotonicity / round-trip / error-bound oracles",
            "Generated-input search directly on MinMaxWeight, PACTAct and QuantizerBias: tensors with "
            "per-channel magnitudes 2^[-30,13] of several degenerate kinds, all supported bit-widths, "
            "clip values 0.05..1e3; every level boundary and rounding half-point (+-1 ulp) for bits "
            "{2,3,4,8} is enumerated. Oracles are algebraic laws stated in the property (range, "
            "integrality, int x scale round-trip, truncation, error < one step, monotonicity, zero "
            "scale -> zero).",
            "Float32 comparison tolerances stated in the evidence assumptions; PACT scale vs 1e-3 "
            "stabiliser and bias isclose(1e-8) zero test treated as by-design.",
            "DESIGN.md 4/C13"),
    'C10': ("model-based testing of call histories (Hypothesis operation sequences interpreted "
            "against the real selector and a dict model of the option state)",
            "Generated histories of coefficient changes, single-option updates, train/eval switches "
            "and forwards on single MPS selectors, single SuperNet combiners, whole MPS models and "
            "whole SuperNets; after every forward the sampled coefficients are compared with what "
            "the model state prescribes (one-hot at arg-max / any one-hot / exactly the float64 "
            "tempered softmax / Gumbel-perturbed / unchanged), then summary() and export() are "
            "compared with the arg-max of the raw coefficients.",
            "No ties (pairwise gaps >= 0.05); Gumbel recognised statistically by non-coincidence "
            "with the noise-free softmax.",
            "DESIGN.md 4/C10"),
    'C03': ("differential testing over Hypothesis-generated SuperNets with all / sampled winner "
            "combinations: exported network vs hard SuperNet vs independently built "
            "winning-branch reference",
            "Generated-input search over networks with 1..3 choice blocks of 2..12 branches of five "
            "kinds (incl. user blocks with functional tails, Identity, blocks applied twice); for "
            "each network every combination of winners (<=64) or a covering sample is exported and "
            "compared with the SuperNet under hard selection AND with a reference network built "
            "from the same specification that contains only the winning branches; module tree and "
            "bit-equality of surviving parameters are asserted.",
            "Tolerance 1e-5 relative for the weighted-sum vs plain forward; branches share the "
            "output shape (README).",
            "DESIGN.md 4/C03"),
    'C06': ("Hypothesis-generated SuperNets/coefficients; cost vs float64 mix of from-scratch "
            "per-branch metrics measured on the user's model; bracket and exported-network equality",
            "Generated-input search over the C03 networks with params/ops metrics (+no-bias), dict "
            "specs, full_cost on/off, soft/hard/Gumbel sampling in train and eval; the oracle reads "
            "the sampled coefficients and recomputes the mix from per-branch costs counted from "
            "scratch (actual numel, MACs per call site); checks the [cheapest, most expensive] "
            "bracket and, under hard selection, equality with the metric of the exported network.",
            "Relative tolerance 1e-5; sampled coefficients taken as given (C10 checks them).",
            "DESIGN.md 4/C06"),
    'C16': ("exhaustive grids + Hypothesis axis sweeps over every registered cost function; "
            "monotonicity / positivity / finiteness / exact-rounding / rejection oracles",
            "Every function registered by every built-in CostSpec is called directly: complete "
            "(cin x cout) grids (quick: 46 channel values incl. tile edges and x.5 fractions; "
            "thorough: 1..130 + fractions), Hypothesis-drawn base points swept along every axis "
            "(channels, kernel, output rows/cols, weight/activation bits), depthwise == generic per "
            "group for the hardware-independent metrics, the seven rounding helpers vs Python "
            "integer arithmetic on 1..300 (thorough 1..1200) and fractional brackets with "
            "gradient pass-through, a table of unsupported precisions/kinds that must raise, and "
            "vars() of real un-converted nn layers (plain-number channel counts, as PIT/SuperNet "
            "show them for layers outside the search) priced like the tensor description.",
            "Pattern held fixed per sweep (a 1->1 conv belongs to the depthwise pattern); relative "
            "tolerance 1e-6 on 'does not decrease'.",
            "DESIGN.md 4/C16"),
    'C19': ("Hypothesis-generated stub/real models and schedule positions + exhaustive epoch grid; "
            "float64 reference formula, zero-iff, growth and gradient oracles",
            "Generated-input search on stub DNAS objects with controllable named costs (above / at / "
            "below target, given or derived strengths) and on real PIT models with drawn masks "
            "(full_cost on/off, layers excluded from the search, target often exactly the cost "
            "read once beforehand); "
            "the (n_epochs, epoch) grid for n_epochs <= 50 is enumerated completely. Oracles: "
            "closed-form reference in float64, penalty == 0 iff all constraints hold, strict "
            "growth under a bumped excess, gradient == effective strength, effective strength "
            "1% at epoch 0, monotone, final at half schedule, never above final.",
            "Derived strengths only under the property's premise (every initial cost above its "
            "target); float32-vs-float64 tolerance 1e-4.",
            "DESIGN.md 4/C19"),
    'C20': ("exhaustive small-matrix enumeration + Hypothesis score matrices for the reassignment "
            "step; Hypothesis-generated per-channel MPS models for the whole refinement with a "
            "recording wrapper; contract / promote-only / cost oracles",
            "The step is called directly on all compositions of the channel count for P<=3, C<=5 "
            "(20/60 seeded score matrices each) and on Hypothesis matrices up to 4x8 (random, with "
            "ties, binary); the whole refinement runs on generated per-channel MPS models under the "
            "NE16 cost while the harness records every reassignment call; what the search chooses "
            "(count level: promote-only, non-negative, pruned count unchanged, sum preserved, not "
            "costlier) is never excused, channel-level consequences of the greedy step are "
            "classified as known findings only while the step returns exactly the shipped "
            "algorithm's output.",
            "Three open known findings (greedy step, its consequences, shared selectors) are "
            "classified narrowly; the classifier embeds a transcription of the shipped greedy.",
            "DESIGN.md 4/C20"),
    'C12': ("Hypothesis-generated models with arbitrary real mask / coefficient values; finiteness, "
            "autograd-vs-forward-difference probes, weight/data perturbation (metamorphic) and "
            "component-wise monotonicity oracles",
            "Generated-input search over PIT, SuperNet and MPS models (and ODiMO_MPS with its "
            "defaults) with every applicable built-in metric: cost finite and >= 0, gradients to "
            "architectural parameters finite, none to weights/biases, non-zero wherever a forward "
            "difference shows that raising the parameter raises the metric (continuous cost: small "
            "step; discrete cost: step across the binarisation threshold vs straight-through "
            "gradient), bit-equal cost after perturbing all weights/BN statistics and changing the "
            "input, PIT cost(p) <= cost(q) for |p| <= |q| component-wise, open masks == original "
            "model, and the costs read with every mask open come back bit-identically when the "
            "masks are opened again after the history of the case (incl. re-assigning the "
            "specification on partly closed masks). Two open known findings (float-input MPS layers, ODiMO cost) are classified "
            "narrowly.",
            "Probes skip |p| < 1e-3; Gumbel off; ODiMO clauses beyond 'can be evaluated' are not "
            "exercised while its cost raises (known finding).",
            "DESIGN.md 4/C12"),
    'C07': ("differential / round-trip testing over Hypothesis-generated networks: pre-conversion "
            "deep copy vs wrapped model vs immediate export vs the caller's object afterwards",
            "Generated-input search over networks with BatchNorm (non-default statistics, after "
            "conv/linear and stand-alone), bias-free layers, depthwise, two-input forwards, excluded "
            "layers, fold_bn on/off, autoconvert on/off, handed over in train or eval mode, for PIT, "
            "SuperNet and (mode clause) MPS; the oracle is the output of a deep copy taken before "
            "conversion, the bit-equality of every pre-existing state_dict entry and of the "
            "parameter set of the caller's object, the architecture of the immediate export and "
            "the .training flag of every wrapper module. One open known finding (import mode fuses "
            "BN into the caller's layers) is classified narrowly.",
            "Tolerance 1e-5 relative; new buffers registered on user-placed layers in import mode "
            "are tolerated (they are neither parameters nor outputs).",
            "DESIGN.md 4/C07"),
    'C18': ("model-based / twin differential testing of call histories: exhaustive short sequences "
            "+ Hypothesis histories of observers and mutators with full-state snapshots",
            "All sequences of length <= 2 (thorough <= 3) over the 11-call alphabet on four fixed "
            "models, and Hypothesis histories up to length 8 on generated PIT / SuperNet / MPS "
            "models; after every observer (export, export(add_bn=False), summary, str, cost, "
            "get_cost+gradient, cost_specification swap and back) the snapshot of the model (eval "
            "output on a deep copy, every cost value and its gradient, summary, state_dict, all "
            ".training flags, deep-copyability) must be bit-identical, repeated exports identical, "
            "swapped specs in effect, and a twin that only received the mutators (forward, training "
            "step, train/eval) must end bit-identical.",
            "Snapshots are taken with the library's own accessors; dropout excluded; RNG reseeded "
            "per mutator so that twins are comparable under Gumbel sampling.",
            "DESIGN.md 4/C18"),
    'C17': ("round-trip testing over Hypothesis-generated training histories: state_dict -> "
            "torch.save/load -> fresh wrapper -> strict load -> observational equality",
            "Generated models of the three methods with histories of optimizer steps (SGD/Adam on "
            "all trainable parameters), option changes (temperature, hard, gumbel, "
            "disable_sampling, discrete_cost), training phases and mode switches; observation "
            "passes with autograd on or under no_grad, in either order; the checkpoint is loaded "
            "(strict) into a wrapper freshly built from the pristine seed with the same constructor "
            "arguments and only the Python-level options re-applied; training-mode and eval-mode "
            "outputs, all cost values, summary and the exported network (structure + output, or the "
            "same exception) must be bit-identical to the original's.",
            "Checkpoint positions stand in for crash points; the MPS temperature must come back from "
            "the state_dict; runs that diverge to non-finite parameters are discarded and counted.",
            "DESIGN.md 4/C17"),
    'C11': ("model-based testing of call histories: breadth-first exploration with abstract-state "
            "de-duplication on fixed models + Hypothesis call sequences on generated models, "
            "against a dict model of requires_grad flags and sampler options",
            "Every call of the trainability / option alphabet is applied to the real model and to a "
            "dict model; after EVERY call: nas/net parameters partition parameters() (with a "
            "reference classification by module type and conservation of the user's parameter "
            "count), requires_grad == dict model, after a training step no gradient on non-"
            "trainable parameters, frozen maskers bit-identical and gradient-free, sampled "
            "coefficients of every selector obey the dict model of the options. The exploration of "
            "the fixed models is complete up to depth 3 (thorough: until closure under "
            "reachability, states/transitions reported); Hypothesis adds sequences up to 12 calls.",
            "requires_grad of frozen maskers is exempt (pinned by a baseline test); their "
            "frozenness is decided behaviourally.",
            "DESIGN.md 4/C11"),
    'C14': ("differential testing of integer vs fake-quantized layers over Hypothesis-generated "
            "networks / precisions, on the integer network's own activations, with an explicit "
            "error bound, an exact recomputation of the documented integer formula and range checks",
            "Generated-input search over sequential / depthwise-separable 2-D networks (bias on/off, "
            "folded BN, stride / padding / dilation on either axis, uniform and mixed {2,4,8}-bit "
            "precisions, MATCH scale_bit/shift_pos options, both backends, calibrated clips); the "
            "integer network runs with forward hooks; every integer layer is compared with (a) its "
            "documented integer formula recomputed in float64 from its stored integers, (b) its "
            "fake-quantized counterpart fed the integer image of the same input (within one level + "
            "the bound implied by its own scale/shift), (c) declared ranges of weights, activations, "
            "scale, shift and scaled bias, (d) a near-optimal shift; the final layer against the "
            "real-valued logits.",
            "MAUPITI: Linear last layer, square kernels; no residual adds / dilated depthwise "
            "(no integer counterpart); clips >= 0.3 (away from the 1e-3 stabiliser); ONNX export is "
            "not exercised (package missing in this sandbox).",
            "DESIGN.md 4/C14"),
}

NOT_YET = "check not built yet"


def build():
    props = [json.loads(l)['id'] for l in open(os.path.join(ROOT, 'properties.jsonl'))]
    checks = []
    for pid in props:
        if pid not in CHECKS:
            continue
        tech, text, note, ref = CHECKS[pid]
        checks.append({
            'property_id': pid,
            'quick_cmd': f"./check {pid} --tier quick",
            'thorough_cmd': f"./check {pid} --tier thorough",
            'evidence_file': f"evidence/{pid}.json",
            'replay_cmd_template': f"./check {pid} --replay {{path}}",
            'engine': 'vp',
            'level_claimed': {'category': 'exploration', 'text': text, 'design_ref': ref},
            'level_note': note,
            'technique': tech,
        })
    man = {
        'version': 1,
        'setup_cmd': ("/venv/bin/pip install -q --no-index --find-links /opt/veriftools/wheels "
                      "hypothesis jsonschema >/dev/null 2>&1; ./check --selftest"),
        'hooks': {
            'guard': 'EML_EDA_PLINIO_VERIF',
            'enable': ("no source hooks: plinio is pure Python and installed editable, every check "
                       "imports the working tree of /repo in a fresh process (./check sets "
                       "EML_EDA_PLINIO_VERIF=1 but no code in /repo reads it)"),
            'baseline_off_cmd': BASELINE_OFF,
            'source_commits': [],
            'add_only': True,
        },
        'engines': [{
            'name': 'vp', 'path': 'vp/',
            'serves_properties': [c['property_id'] for c in checks],
            'kind_free_text': ("property-based testing: Hypothesis strategies over a network / "
                               "configuration / history grammar with explicit oracles, "
                               "exhaustive enumeration of finite sub-domains, sharded over 16 "
                               "processes in the thorough tier"),
        }],
        'checks': checks,
        'not_applicable': [{'property_id': p, 'reason': NOT_YET} for p in props if p not in CHECKS],
        'notes': ("Genuine defects repaired in /repo are unguarded 'fix:' commits listed in "
                  "known_findings.json (status fixed); open findings are listed there with a "
                  "classifier and a witness replay."),
    }
    with open(os.path.join(ROOT, 'MANIFEST.json'), 'w') as f:
        json.dump(man, f, indent=1)
    return man


if __name__ == '__main__':
    m = build()
    print(f"{len(m['checks'])} checks, {len(m['not_applicable'])} not applicable")
