"""C10 - what is evaluated, what is reported and what is exported are the same choice.

Model-based histories: a list of operations (set coefficients, change ONE sampling option,
train(), eval(), forward()) is interpreted against the real selector and against a dict model of
the option state; after every forward the sampled coefficients are checked against what the
model state prescribes.
"""
from __future__ import annotations

import math

from hypothesis import strategies as st

from .. import mpsutil as mu
from .. import netgen as ng
from .. import snutil as su
from ..core import Check, Part, Result, must

temps = st.floats(min_value=math.log(0.05), max_value=math.log(20.0)).map(
    lambda t: round(math.exp(t), 4))


def ops_strategy(with_gumbel_opt=True, with_disable=True):
    opts = [st.tuples(st.just('temperature'), temps), st.tuples(st.just('hard'), st.booleans())]
    if with_gumbel_opt:
        opts.append(st.tuples(st.just('gumbel'), st.booleans()))
    if with_disable:
        opts.append(st.tuples(st.just('disable'), st.booleans()))
    names = ['temperature', 'hard'] + (['gumbel'] if with_gumbel_opt else []) + (
        ['disable'] if with_disable else [])
    vals = {'temperature': temps, 'hard': st.booleans(), 'gumbel': st.booleans(),
            'disable': st.booleans()}
    # usually ONE option per call, sometimes two or three in the same call
    multi = st.lists(st.sampled_from(names), min_size=2, max_size=3, unique=True).flatmap(
        lambda ns: st.tuples(*[st.tuples(st.just(n), vals[n]) for n in ns]).map(list))
    single = st.one_of(*opts).map(lambda o: [list(o)])
    op = st.one_of(
        st.tuples(st.just('coef'), st.integers(0, 10 ** 6)),
        st.tuples(st.just('opt'), st.one_of(single, single, multi)),
        st.tuples(st.just('train'), st.none()),
        st.tuples(st.just('eval'), st.none()),
        st.tuples(st.just('forward'), st.integers(0, 100)),
        st.tuples(st.just('forward'), st.integers(0, 100)),
    )
    return st.lists(op, min_size=1, max_size=12).map(lambda l: [list(o) for o in l] +
                                                     [['forward', 0]])


def _pairs(arg):
    """An 'opt' argument: [[name, value], ...] (older replay files: [name, value])."""
    if arg and isinstance(arg[0], str):
        return [arg]
    return arg


def ref_softmax(alpha, T):
    import torch
    return torch.softmax(alpha.detach().double() / T, dim=0)


def check_theta(res, where, theta, alpha, state, prev_theta, n_checked):
    """Validates one sampled coefficient tensor against the model state."""
    import torch
    th = theta.detach()
    if state['disable']:
        if prev_theta is not None and not torch.equal(th, prev_theta):
            res.bad('sampling-disabled-but-coefficients-changed', where=where)
        return
    if not torch.isfinite(th).all() or (th < 0).any():
        res.bad('coefficients-negative-or-non-finite', where=where)
        return
    s = th.sum(dim=0)
    if (s - 1).abs().max() > 1e-5:
        res.bad('coefficients-do-not-sum-to-one', where=where, sums=s.tolist()[:4])
    am = torch.argmax(alpha.detach(), dim=0)
    onehot = torch.nn.functional.one_hot(am, num_classes=alpha.shape[0]).to(th.dtype)
    if alpha.dim() == 2:
        onehot = onehot.t()
    is_onehot = bool(((th == 0) | (th == 1)).all())
    soft = ref_softmax(alpha, state['temperature']).to(th.dtype)
    must_argmax = state['must_argmax'](state)
    if must_argmax:
        if not torch.equal(th, onehot):
            res.bad('not-one-hot-at-argmax', where=where, theta=th.tolist()[:8],
                    argmax=am.tolist() if am.dim() else int(am), state=_pub(state))
    elif state['training'] and state['gumbel']:
        if state['hard'] and not is_onehot:
            res.bad('gumbel-hard-not-one-hot', where=where, theta=th.tolist()[:8])
        if not state['hard'] and alpha.shape[0] > 1 and torch.allclose(th, soft, atol=1e-6) \
                and state['temperature'] < 19 and float(soft.max(dim=0).values.min()) < 0.999:
            # Gumbel noise makes a coincidence with the noise-free softmax practically impossible
            # (unless the softmax is saturated: then the noise cannot move it by 1e-6)
            res.bad('gumbel-selected-but-plain-softmax-sampled', where=where, state=_pub(state))
    else:
        # plain soft sampling: exactly the tempered softmax
        if (th - soft).abs().max() > 2e-6:
            res.bad('soft-coefficients-differ-from-tempered-softmax', where=where,
                    max_abs=float((th - soft).abs().max()), state=_pub(state))
        if not torch.equal(torch.argmax(th, dim=0), am):
            res.bad('largest-sampled-coefficient-not-at-argmax', where=where)
    n_checked[0] += 1


def _pub(state):
    return {k: v for k, v in state.items() if not callable(v)}


def mps_must_argmax(s):
    return (not s['training']) or (s['hard'] and not s['gumbel'])


def sn_must_argmax(s):
    return s['hard'] and ((not s['gumbel']) or (not s['training']))


# ----------------------------------------------------------------------------------------
# unit level: one MPS selector
# ----------------------------------------------------------------------------------------
@st.composite
def qtz_cases(draw):
    kind = draw(st.sampled_from(['layer', 'channel']))
    n = draw(st.integers(1, 8))
    precs = draw(st.permutations([0, 2, 3, 4, 5, 6, 7, 8]))[:n] if kind == 'channel' else \
        draw(st.permutations([2, 3, 4, 5, 6, 7, 8, 16]))[:n]
    precs = list(precs)
    if precs == [0]:
        precs = [0, 8]       # a selector offering only 'pruned' is not a search space
    return {'kind': kind, 'prec': list(precs), 'cols': draw(st.integers(1, 16)),
            'init': {'temperature': draw(temps), 'hard': draw(st.booleans()),
                     'gumbel': draw(st.booleans()), 'disable': False},
            'ops': draw(ops_strategy())}


def oracle_qtz(case) -> Result:
    import torch
    from plinio.methods.mps.nn.qtz import MPSPerLayerQtz, MPSPerChannelQtz
    from plinio.methods.mps.quant.quantizers import PACTAct, MinMaxWeight
    res = Result()
    init = case['init']
    C = case['cols']
    torch.manual_seed(7)
    if case['kind'] == 'layer':
        q = MPSPerLayerQtz(tuple(case['prec']), PACTAct, {'cout': C},
                           softmax_temperature=init['temperature'], hard_softmax=init['hard'],
                           gumbel_softmax=init['gumbel'], disable_sampling=init['disable'])
    else:
        q = MPSPerChannelQtz(tuple(case['prec']), MinMaxWeight, {'cout': C},
                             softmax_temperature=init['temperature'], hard_softmax=init['hard'],
                             gumbel_softmax=init['gumbel'], disable_sampling=init['disable'])
    state = dict(init, training=True, must_argmax=mps_must_argmax)
    q.train()
    prev = q.theta_alpha.detach().clone()
    n_checked = [0]
    moved = False
    for i, (op, arg) in enumerate(case['ops']):
        if op == 'coef':
            with torch.no_grad():
                a = q.alpha
                v = mu.scores(a.shape[0], None if a.dim() == 1 else a.shape[1], arg, 'unit')
                if arg % 2:
                    q.alpha.data.copy_(v)      # the library's own idiom: no version-counter bump
                else:
                    q.alpha.copy_(v)
            moved = True
        elif op == 'opt':
            kw = {'temperature': None, 'hard': None, 'gumbel': None, 'disable_sampling': None}
            for name, val in _pairs(arg):
                kw['disable_sampling' if name == 'disable' else name] = val
                state[name] = val
            must(res, 'update_softmax_options', q.update_softmax_options, **kw)
        elif op == 'train':
            q.train()
            state['training'] = True
        elif op == 'eval':
            q.eval()
            state['training'] = False
        elif op == 'forward':
            torch.manual_seed(arg)
            x = torch.rand(2, C, 3) if case['kind'] == 'layer' else torch.randn(C, 2, 3)
            y = must(res, 'forward', q, x)
            if y is None:
                return res
            check_theta(res, f"op{i}", q.theta_alpha, q.alpha, state, prev, n_checked)
            prev = q.theta_alpha.detach().clone()
        if res.discrepancies:
            return res
    am0 = int(torch.argmax(torch.tensor(case['prec'], dtype=torch.float)))
    cur = torch.argmax(q.alpha.detach(), dim=0)
    res.nontrivial = len(case['prec']) >= 2 and moved and bool((cur != am0).any())
    res.ev(f"kind:{case['kind']}", f"n:{min(len(case['prec']), 4)}+" if len(case['prec']) >= 4
           else f"n:{len(case['prec'])}")
    res.ev(*{f"opt:{n}" for o, a in case['ops'] if o == 'opt' for n, _ in _pairs(a)})
    if any(o == 'opt' and len(_pairs(a)) > 1 for o, a in case['ops']):
        res.ev('several-options-in-one-call')
    res.obs = {'forwards_checked': n_checked[0], 'final_state': _pub(state)}
    return res


def qtz_grid(tier):
    """EVERY single update_softmax_options call on one selector: {per-layer, per-channel} x every
    initial (hard, gumbel, disable) x every subset of the four options with two values each
    (3^4 = 81 calls, the empty one included) x the mode of the following forwards."""
    import itertools
    vals = {'temperature': (None, 0.5, 2.0), 'hard': (None, False, True),
            'gumbel': (None, False, True), 'disable': (None, False, True)}
    names = list(vals)
    for kind in ('layer', 'channel'):
        for h0, g0, d0 in itertools.product((False, True), repeat=3):
            for combo in itertools.product(*[vals[n] for n in names]):
                call = [[n, v] for n, v in zip(names, combo) if v is not None]
                for mode in ('train', 'eval'):
                    ops = [['coef', 11], ['forward', 1]]
                    ops.append(['opt', call] if call else ['opt', []])
                    ops += [[mode, None], ['forward', 2], ['coef', 12], ['forward', 3]]
                    yield {'kind': kind, 'prec': [2, 4, 8], 'cols': 3,
                           'init': {'temperature': 1.0, 'hard': h0, 'gumbel': g0, 'disable': d0},
                           'ops': ops}


# ----------------------------------------------------------------------------------------
# unit level: one SuperNet combiner
# ----------------------------------------------------------------------------------------
@st.composite
def comb_cases(draw):
    return {'n': draw(st.integers(2, 12)), 'gumbel': draw(st.booleans()),
            'hard0': draw(st.booleans()),
            'ops': draw(ops_strategy(with_gumbel_opt=False, with_disable=False))}


def oracle_comb(case) -> Result:
    import torch
    from plinio.methods.supernet.nn.combiner import SuperNetCombiner
    res = Result()
    n = case['n']
    c = SuperNetCombiner(n, case['gumbel'], case['hard0'])
    state = {'temperature': 1.0, 'hard': case['hard0'], 'gumbel': case['gumbel'],
             'disable': False, 'training': True, 'must_argmax': sn_must_argmax}
    c.train()
    n_checked = [0]
    moved = False
    for i, (op, arg) in enumerate(case['ops']):
        if op == 'coef':
            with torch.no_grad():
                if arg % 2:
                    c.alpha.data.copy_(mu.scores(n, None, arg, 'comb'))
                else:
                    c.alpha.copy_(mu.scores(n, None, arg, 'comb'))
            moved = True
        elif op == 'opt':
            for name, val in _pairs(arg):
                if name == 'temperature':
                    c.softmax_temperature = val
                else:
                    c.hard_softmax = val
                state[name] = val
        elif op == 'train':
            c.train()
            state['training'] = True
        elif op == 'eval':
            c.eval()
            state['training'] = False
        elif op == 'forward':
            torch.manual_seed(arg)
            ys = [torch.randn(2, 3) for _ in range(n)]
            y = must(res, 'forward', c, ys)
            if y is None:
                return res
            check_theta(res, f"op{i}", c.theta_alpha, c.alpha, state, None, n_checked)
            want = sum(c.theta_alpha.detach()[j] * ys[j] for j in range(n))
            if (y.detach() - want).abs().max() > 1e-5:
                res.bad('output-is-not-the-coefficient-weighted-sum', where=f"op{i}")
            if c.best_layer_index() != int(torch.argmax(c.alpha)):
                res.bad('best-layer-index-not-argmax', where=f"op{i}")
            # summary(): the reported coefficients are largest on the arg-max branch and reading
            # them does not disturb what was sampled
            before = c.theta_alpha.detach().clone()
            s = c.summary()['supernet_branches']
            rep = [s[f"branch_{j}"]['alpha'] for j in range(n)]
            if max(range(n), key=lambda j: rep[j]) != c.best_layer_index() and \
                    len(set(rep)) == len(rep):
                res.bad('summary-largest-coefficient-not-on-argmax-branch', reported=rep,
                        argmax=c.best_layer_index())
            if not torch.equal(before, c.theta_alpha.detach()):
                res.bad('summary-changed-sampled-coefficients', where=f"op{i}")
        if res.discrepancies:
            return res
    res.nontrivial = moved and c.best_layer_index() != 0
    res.ev(f"branches:{'10+' if n >= 10 else n}", 'gumbel' if case['gumbel'] else 'softmax')
    res.obs = {'forwards_checked': n_checked[0], 'winner': c.best_layer_index()}
    return res


# ----------------------------------------------------------------------------------------
# model level: MPS
# ----------------------------------------------------------------------------------------
@st.composite
def mps_model_cases(draw):
    fam = draw(st.sampled_from(['2d', '2d', '2d', '1d']))
    spec = draw(ng.netspecs(mu.profile(family=fam)))
    return {'spec': spec, 'per_channel': draw(st.booleans()),
            'w_prec': draw(mu.precisions), 'a_prec': draw(mu.precisions),
            'wseed': draw(st.integers(0, 20)),
            'init': {'temperature': draw(temps), 'hard': draw(st.booleans()),
                     'gumbel': draw(st.booleans()), 'disable': False},
            'ops': draw(ops_strategy())}


def oracle_mps_model(case) -> Result:
    import torch
    res = Result()
    spec = case['spec']
    init = case['init']
    mps, x0 = mu.build_mps(spec, case['wseed'], case['w_prec'], case['a_prec'],
                           per_channel=case['per_channel'], temperature=init['temperature'],
                           hard_softmax=init['hard'], gumbel_softmax=init['gumbel'])
    state = dict(init, training=False, must_argmax=mps_must_argmax)   # built from an eval() net
    qs = {}
    for name, q in mu.quantizers(mps).items():
        qs.setdefault(id(q), (name, q))
    prev = {i: q.theta_alpha.detach().clone() for i, (nm, q) in qs.items()}
    n_checked = [0]
    moved = False
    for i, (op, arg) in enumerate(case['ops']):
        if op == 'coef':
            mu.set_coefficients(mps, arg)
            moved = True
        elif op == 'opt':
            kw = {'temperature': None, 'hard': None, 'gumbel': None, 'disable_sampling': None}
            for name, val in _pairs(arg):
                kw['disable_sampling' if name == 'disable' else name] = val
                state[name] = val
            must(res, 'update_softmax_options', mps.update_softmax_options, **kw)
        elif op == 'train':
            mps.train()
            state['training'] = True
        elif op == 'eval':
            mps.eval()
            state['training'] = False
        elif op == 'forward':
            torch.manual_seed(arg)
            with torch.no_grad():
                y = must(res, 'forward', mps, mu.mps_input(spec, arg))
            if y is None:
                return res
            for qi, (nm, q) in qs.items():
                check_theta(res, f"op{i}:{nm}", q.theta_alpha, q.alpha, state, prev[qi], n_checked)
                prev[qi] = q.theta_alpha.detach().clone()
        if res.discrepancies:
            return res
    # reported == arg-max of raw coefficients == exported
    summ = mps.summary()
    per_layer = not case['per_channel']
    # a depthwise layer whose channels selected different precisions (known finding, see below)
    dw_mixed = [f"layers.{n['id']}" for n in spec['nodes'] if ng.is_dw(n) and isinstance(
        summ.get(f"layers.{n['id']}", {}).get('w_precision'), list) and len(set(
            summ[f"layers.{n['id']}"]['w_precision'])) > 1]
    n_before = len(res.discrepancies)
    exported = must(res, 'export', mps.export)
    for d in res.discrepancies[n_before:]:
        d['depthwise_layers_with_mixed_precisions'] = dw_mixed
        d['per_channel'] = case['per_channel']
    nonini = False
    for name, s in summ.items():
        m = mps.seed.get_submodule(name)
        oq = m.out_mps_quantizer
        want_out = int(oq.precision[int(torch.argmax(oq.alpha))])
        if s['out_precision'] != want_out:
            res.bad('summary-out-precision-not-argmax', layer=name, reported=s['out_precision'],
                    argmax=want_out)
        if 'w_precision' in s:
            wq = m.w_mps_quantizer
            am = torch.argmax(wq.alpha.detach(), dim=0)
            want_w = [int(wq.precision[int(j)]) for j in am] if am.dim() else \
                int(wq.precision[int(am)])
            if s['w_precision'] != want_w:
                res.bad('summary-w-precision-not-argmax', layer=name, reported=s['w_precision'],
                        argmax=want_w)
            if len(case['w_prec']) > 1 and want_w != max(case['w_prec']) and \
                    want_w != [max(case['w_prec'])] * (len(want_w) if isinstance(want_w, list) else 1):
                nonini = True
            if exported is not None and per_layer:
                em = exported.get_submodule(name)
                got = (int(em.w_quantizer.precision), int(em.out_quantizer.precision))
                if got != (want_w, want_out):
                    res.bad('exported-precision-not-argmax', layer=name, exported=list(got),
                            argmax=[want_w, want_out])
            elif exported is not None:
                # per-channel: one sub-layer per selected precision, holding exactly the channels
                # whose arg-max is that precision
                em = exported.get_submodule(name)
                subs = list(em) if hasattr(em, '__iter__') else [em]
                got = sorted((int(l.w_quantizer.precision),
                              int(getattr(l, 'out_channels', getattr(l, 'out_features', -1))))
                             for l in subs)
                want = sorted((p, want_w.count(p)) for p in set(want_w))
                if got != want:
                    res.bad('exported-per-channel-groups-not-argmax', layer=name,
                            exported=[list(g) for g in got], argmax=[list(w) for w in want])
                outs = {int(l.out_quantizer.precision) for l in subs}
                if outs != {want_out}:
                    res.bad('exported-precision-not-argmax', layer=name, exported=sorted(outs),
                            argmax=[want_out])
    res.nontrivial = moved and nonini
    res.ev('per-channel' if case['per_channel'] else 'per-layer')
    res.ev(*{f"opt:{n}" for o, a in case['ops'] if o == 'opt' for n, _ in _pairs(a)})
    if any(o == 'opt' and len(_pairs(a)) > 1 for o, a in case['ops']):
        res.ev('several-options-in-one-call')
    res.obs = {'selector_samples_checked': n_checked[0], 'final_state': _pub(state)}
    return res


# ----------------------------------------------------------------------------------------
# model level: SuperNet
# ----------------------------------------------------------------------------------------
@st.composite
def sn_model_cases(draw):
    spec = draw(su.sn_specs(functional_tail=False, max_sn=2))
    return {'spec': spec, 'wseed': draw(st.integers(0, 20)),
            'ops': draw(ops_strategy(with_gumbel_opt=False, with_disable=False))}


def oracle_sn_model(case) -> Result:
    import torch
    res = Result()
    spec = case['spec']
    net, sn, x0 = su.build_sn(spec, case['wseed'])
    combs = su.combiners(sn)
    gum = {n['id']: n.get('gumbel', False) for n in su.sn_nodes(spec)}
    state = {'temperature': 1.0, 'hard': False, 'disable': False, 'training': False,
             'must_argmax': sn_must_argmax}
    n_checked = [0]
    moved = False
    for i, (op, arg) in enumerate(case['ops']):
        if op == 'coef':
            with torch.no_grad():
                for nid, c in combs.items():
                    if arg % 2:
                        c.alpha.data.copy_(mu.scores(c.n_branches, None, arg, nid))
                    else:
                        c.alpha.copy_(mu.scores(c.n_branches, None, arg, nid))
            moved = True
        elif op == 'opt':
            kw = {}
            for name, val in _pairs(arg):
                kw[name] = val
                state[name] = val
            must(res, 'update_softmax_options', sn.update_softmax_options, **kw)
        elif op == 'train':
            sn.train()
            state['training'] = True
        elif op == 'eval':
            sn.eval()
            state['training'] = False
        elif op == 'forward':
            torch.manual_seed(arg)
            with torch.no_grad():
                y = must(res, 'forward', sn, ng.make_input(spec, arg))
            if y is None:
                return res
            for nid, c in combs.items():
                check_theta(res, f"op{i}:{nid}", c.theta_alpha, c.alpha,
                            dict(state, gumbel=gum[nid]), None, n_checked)
        if res.discrepancies:
            return res
    # two rounds: right after the last forward pass, and after the coefficients moved again with
    # NO forward pass in between (summary / export follow the current raw coefficients)
    for rnd in ('after-forward', 'coefficients-moved-no-forward'):
        if rnd != 'after-forward':
            with torch.no_grad():
                for nid, c in combs.items():
                    c.alpha.copy_(mu.scores(c.n_branches, None, 4242 + len(case['ops']), nid))
        _summary_export_follow_argmax(res, sn, combs, rnd)
        if res.discrepancies:
            return res
    res.nontrivial = moved and any(int(torch.argmax(c.alpha)) != 0 for c in combs.values())
    res.ev(*{f"opt:{n}" for o, a in case['ops'] if o == 'opt' for n, _ in _pairs(a)})
    if any(o == 'opt' and len(_pairs(a)) > 1 for o, a in case['ops']):
        res.ev('several-options-in-one-call')
    res.obs = {'combiner_samples_checked': n_checked[0]}
    return res


def _summary_export_follow_argmax(res, sn, combs, rnd):
    import torch
    summ = sn.summary()
    exported = must(res, 'export', sn.export)
    for nid, c in combs.items():
        best = int(torch.argmax(c.alpha))
        s = summ[f"layers.{nid}.sn_combiner"]['supernet_branches']
        rep = [s[f"branch_{j}"]['alpha'] for j in range(c.n_branches)]
        if len(set(rep)) == len(rep) and max(range(len(rep)), key=lambda j: rep[j]) != best:
            res.bad('summary-largest-coefficient-not-on-argmax-branch', block=nid, reported=rep,
                    argmax=best, when=rnd)
        if exported is not None:
            names = [k for k, _ in exported.named_modules() if k.startswith(f"layers.{nid}.")]
            other = [k for k in names if '.sn_branches.' in k and
                     not (k + '.').startswith(f"layers.{nid}.sn_branches.{best}.")]
            if other or any('sn_combiner' in k for k in names):
                res.bad('export-kept-non-winning-branch', block=nid, winner=best, kept=other[:4],
                        when=rnd)


def c10_dw_perchannel_export(part, case, disc) -> bool:
    """Known finding D31: per-channel export builds one sub-convolution per selected precision
    with `groups` copied from the searched layer; for a depthwise layer whose channels selected
    DIFFERENT precisions each group has fewer channels than `groups` and nn.ConvNd refuses it."""
    if part != 'mps-model' or not disc.get('per_channel'):
        return False
    k = disc.get('kind', '')
    if not (k.startswith('export:raised:ValueError@plinio/methods/mps/nn/conv') and
            k.endswith(':export')):
        return False
    return bool(disc.get('depthwise_layers_with_mixed_precisions')) and \
        'divisible by groups' in disc.get('message', '')


CHECK = Check(
    prop='C10',
    parts=[
        Part('mps-selector', oracle_qtz, strategy=qtz_cases(),
             budget={'quick': 800, 'thorough': 5000}, shards={'quick': 1, 'thorough': 16}),
        Part('mps-selector-call-grid', oracle_qtz, enumerate=qtz_grid, enum_parallel=True,
             shards={'quick': 4, 'thorough': 8},
             exhaustive_note='ALL 2 x 8 x 81 x 2 = 2592 combinations of selector kind x initial '
                             'flags x one update_softmax_options call (every subset of the four '
                             'options, two values each) x train/eval'),
        Part('sn-combiner', oracle_comb, strategy=comb_cases(),
             budget={'quick': 500, 'thorough': 3000}, shards={'quick': 1, 'thorough': 16}),
        Part('mps-model', oracle_mps_model, strategy=mps_model_cases(),
             budget={'quick': 120, 'thorough': 600}, shards={'quick': 1, 'thorough': 16}),
        Part('sn-model', oracle_sn_model, strategy=sn_model_cases(),
             budget={'quick': 120, 'thorough': 600}, shards={'quick': 1, 'thorough': 16}),
    ],
    rule=("Histories of 2..13 operations {set coefficients (random order, pairwise gaps >= 0.05), "
          "update one (sometimes two or three) sampling options in one call (temperature in [0.05,20] / hard / gumbel / disable), train(), "
          "eval(), forward} interpreted against (a) a single MPS per-layer selector with 1..8 "
          "precisions or per-channel selector up to 8x16, (b) a SuperNet combiner with 2..12 "
          "branches, (c) whole MPS models and (d) whole SuperNets from the NetSpec grammar; a dict "
          "model of the option state prescribes after every forward whether the sampled "
          "coefficients must be the one-hot at the arg-max, any one-hot, exactly the tempered "
          "softmax (recomputed in float64), a Gumbel-perturbed probability vector or bit-equal to "
          "the previous sample; at the end summary() and export() (per-layer: the layer's weight / "
          "output precision; per-channel: one sub-layer per selected precision holding exactly the "
          "channels whose arg-max it is) are compared with the arg-max of the raw coefficients. "
          "MPS models: 2-D and (1 in 4) 1-D networks. Non-trivial = coefficients were moved and the arg-max is not the "
          "construction-time one; distinct by case hash."),
    assumptions=[
        "SuperNet in eval mode without `hard` stays a soft mixture by design (a baseline test "
        "asserts it): there only equality with the tempered softmax and arg-max position are "
        "required",
        "Gumbel sampling is recognised by NOT coinciding with the noise-free softmax (probability "
        "of a false alarm ~0; skipped for temperature >= 19 where noise is flattened)",
    ],
    classifiers={'c10_dw_perchannel_export': c10_dw_perchannel_export},
)
