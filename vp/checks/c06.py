"""C06 - SuperNet cost is the coefficient-weighted mix of branch costs."""
from __future__ import annotations

from hypothesis import strategies as st

from .. import mpsutil as mu
from .. import netgen as ng
from .. import refcost
from .. import snutil as su
from ..core import Check, Part, Result, must

REL = 1e-5
METRICS = ['params', 'params_no_bias', 'ops', 'ops_no_bias']


@st.composite
def cases(draw):
    spec = draw(su.sn_specs(max_sn=3, functional_tail=True))
    costs = draw(st.lists(st.sampled_from(METRICS), min_size=1, max_size=3, unique=True))
    return {'spec': spec, 'wseed': draw(st.integers(0, 50)), 'aseed': draw(st.integers(0, 200)),
            'winners': draw(su.winners_for(spec)), 'costs': costs,
            'dict': len(costs) > 1 or draw(st.booleans()), 'full_cost': draw(st.booleans()),
            'mode': draw(st.sampled_from(['soft', 'soft', 'hard', 'train-soft', 'train-hard'])),
            'temperature': draw(st.sampled_from([0.05, 0.3, 1.0, 4.0, 20.0])),
            # 'every value of the coefficients': also tied maxima (the construction-time vector)
            'ties': draw(st.sampled_from(['none', 'none', 'none', 'uniform', 'partial']))}


def _close(a, b):
    return abs(a - b) <= REL * max(1.0, abs(a), abs(b))


def oracle(case) -> Result:
    import torch
    import plinio.cost as pc
    res = Result()
    spec = case['spec']
    names = case['costs']
    cost = {n: getattr(pc, n) for n in names} if case['dict'] else getattr(pc, names[0])
    net, sn, x0 = su.build_sn(spec, case['wseed'], cost=cost, full_cost=case['full_cost'])
    # reference measurements on a private copy of the USER's model (the SuperNet shares its
    # sub-modules with the user's object: running that one would resample the coefficients)
    import copy
    meas = refcost.measure(copy.deepcopy(net).eval(), x0)
    su.set_winner_coefficients(sn, spec, case['winners'], case['aseed'])
    if case.get('ties', 'none') != 'none':
        with torch.no_grad():
            for nid, comb in su.combiners(sn).items():
                if case['ties'] == 'uniform':
                    comb.alpha.fill_(1.0 / comb.n_branches)
                else:
                    top2 = torch.topk(comb.alpha, 2).indices
                    comb.alpha[top2[1]] = comb.alpha[top2[0]]
    hard = case['mode'] in ('hard', 'train-hard')
    sn.update_softmax_options(temperature=case['temperature'], hard=hard)
    if case['mode'].startswith('train'):
        sn.train()
    else:
        sn.eval()
    torch.manual_seed(case['aseed'])
    with torch.no_grad():
        if must(res, 'forward', sn, x0) is None:
            return res
    combs = su.combiners(sn)
    thetas = {nid: c.theta_alpha.detach().double().tolist() for nid, c in combs.items()}

    blocks = su.sn_nodes(spec)

    def layer_value(rec, metric):
        per_out = (rec['cin'] // rec['groups'])
        for k in rec['k']:
            per_out *= k
        if metric == 'params':
            return rec['weight_numel'] + rec['bias_numel']
        if metric == 'params_no_bias':
            return rec['weight_numel']
        tot = 0
        for shp in rec['calls']:
            pos = 1
            if rec['kind'] != 'Linear':
                for d in shp[2:]:
                    pos *= d
            tot += pos * rec['cout'] * (per_out + (1 if (rec['bias'] and metric == 'ops') else 0))
        return tot

    def get(name):
        c = sn.get_cost(name) if case['dict'] else sn.cost
        return c

    obs = {}
    spread = False
    for metric in names:
        branch_cost = {}
        for b in blocks:
            for i in range(len(b['branches'])):
                pre = f"layers.{b['id']}.sn_branches.{i}"
                branch_cost[(b['id'], i)] = sum(
                    layer_value(r, metric) for nm, r in meas['layers'].items()
                    if nm == pre or nm.startswith(pre + '.'))
        fixed = sum(layer_value(r, metric) for nm, r in meas['layers'].items()
                    if '.sn_branches.' not in nm)
        ref = (fixed if case['full_cost'] else 0.0)
        lo = hi = ref
        for b in blocks:
            cs = [branch_cost[(b['id'], i)] for i in range(len(b['branches']))]
            ref += sum(t * c for t, c in zip(thetas[b['id']], cs))
            lo += min(cs)
            hi += max(cs)
            if max(cs) != min(cs):
                spread = True
        c = must(res, 'cost', get, metric)
        if c is None:
            continue
        cv = float(c)
        obs[metric] = {'supernet': cv, 'reference': ref, 'cheapest': lo, 'most_expensive': hi}
        if not _close(cv, ref):
            res.bad('cost-differs-from-coefficient-weighted-mix', metric=metric, supernet=cv,
                    reference=ref, mode=case['mode'], full_cost=case['full_cost'])
        if cv < lo - REL * max(1.0, abs(lo)) or cv > hi + REL * max(1.0, abs(hi)):
            res.bad('cost-outside-cheapest-most-expensive-bracket', metric=metric, supernet=cv,
                    lo=lo, hi=hi)
        if case['mode'] == 'hard':
            # == the same metric computed from scratch on the exported network
            exported = must(res, 'export', sn.export)
            if exported is not None:
                exported.eval()
                m2 = must(res, 'exported-forward', refcost.measure, exported, x0)
                if m2 is not None:
                    keep = {nm: r for nm, r in m2['layers'].items()
                            if case['full_cost'] or '.sn_branches.' in nm}
                    ev = sum(layer_value(r, metric) for r in keep.values())
                    obs[metric]['exported'] = ev
                    if not _close(cv, ev):
                        res.bad('hard-cost-differs-from-exported-network', metric=metric,
                                supernet=cv, exported=ev, full_cost=case['full_cost'])
    res.obs = obs
    nonuni = any(len(set(round(t, 6) for t in th)) > 1 for th in thetas.values())
    res.nontrivial = nonuni and spread
    res.ev(*[f"metric:{n}" for n in names], 'mode:' + case['mode'],
           'full_cost' if case['full_cost'] else 'nas_cost')
    if any(n['op'] == 'reuse' for n in spec['nodes']):
        res.ev('block-used-twice')
    if any(n.get('gumbel') for n in blocks):
        res.ev('gumbel-block')
    return res


CHECK = Check(
    prop='C06',
    parts=[
        Part('nets', oracle, strategy=cases(),
             budget={'quick': 300, 'thorough': 1500}, shards={'quick': 1, 'thorough': 16}),
    ],
    rule=("SuperNets of C03 (1..3 blocks, 2..12 branches, blocks used once or twice); metrics 1..3 "
          "of {params, params_no_bias, ops, ops_no_bias} as single spec or dictionary; full_cost "
          "on/off; eval soft / eval hard / training soft / training hard (Gumbel blocks included); "
          "temperature in {0.05..20}; random coefficients with a drawn winner. Oracle: sampled "
          "coefficients read after a forward pass, branch costs measured from scratch on the "
          "user's own model (actual numel, MACs per call site via forward hooks), mix recomputed "
          "in float64; bracket [cheapest, most expensive]; under eval-hard the value must equal "
          "the from-scratch metric of the exported network. Non-trivial = some block has "
          "non-uniform coefficients AND branches of different cost; distinct by case hash."),
    assumptions=["relative tolerance 1e-5", "correctness of the sampled coefficients themselves is "
                 "C10's business; here they are read as sampled"],
)
