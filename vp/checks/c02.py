"""C02 - MPS export is bit-identical to the eval-mode mixed-precision model."""
from __future__ import annotations

import math

from hypothesis import strategies as st

from .. import mpsutil as mu
from .. import netgen as ng
from ..core import Check, Part, Result, must


@st.composite
def cases(draw, big=False):
    fam = draw(st.sampled_from(['2d', '2d', '2d', '1d']))
    spec = draw(ng.netspecs(mu.profile(big, family=fam)))
    t = draw(st.one_of(st.floats(min_value=math.log(0.05), max_value=math.log(20.0)),
                      st.sampled_from([math.log(0.05), math.log(0.05), math.log(20.0)])))  # + the ends
    return {'spec': spec, 'w_prec': draw(mu.precisions), 'a_prec': draw(mu.precisions),
            'wseed': draw(st.integers(0, 50)), 'xseed': draw(st.integers(0, 50)),
            'aseed': draw(st.integers(0, 200)),
            'temperature': round(math.exp(t), 4),
            'gumbel': draw(st.booleans()), 'hard': draw(st.booleans()),
            'train_first': draw(st.booleans()),
            # the network is handed over in training mode (the default state of a new module)
            'wrap_train': draw(st.booleans()),
            # another assignment was evaluated (eval forward) before this one
            'prior': draw(st.booleans())}


def _quant_layers(exported):
    from plinio.methods.mps.quant.nn import QuantConv2d, QuantLinear, QuantIdentity
    try:
        from plinio.methods.mps.quant.nn import QuantConv1d
        kinds = (QuantConv2d, QuantLinear, QuantConv1d)
    except ImportError:
        kinds = (QuantConv2d, QuantLinear)
    return kinds, QuantIdentity


def oracle(case) -> Result:
    import torch
    res = Result()
    spec = case['spec']
    mps, x0 = mu.build_mps(spec, case['wseed'], case['w_prec'], case['a_prec'],
                           temperature=case['temperature'], gumbel_softmax=case['gumbel'],
                           hard_softmax=case['hard'], wrap_train=bool(case.get('wrap_train')))
    if case.get('prior'):
        mu.earlier_assignment(mps, mu.mps_input(spec, case['xseed'] + 1), case['aseed'])
        res.ev('earlier-assignment-evaluated-first')
    mu.set_coefficients(mps, case['aseed'])
    x = mu.mps_input(spec, case['xseed'])
    if case['train_first']:
        # a training-mode forward first (samples soft / Gumbel coefficients, updates ranges)
        mps.train()
        torch.manual_seed(case['aseed'])
        with torch.no_grad():
            must(res, 'mps-train-forward', mps, x)
    if mps.training:
        mps.eval()          # (a model that already is in eval mode gets no mode call at all)
    with torch.no_grad():
        y_mps = must(res, 'mps-forward', mps, x)
    exported = must(res, 'export', mps.export)
    if y_mps is None or exported is None:
        return res
    exported.eval()
    with torch.no_grad():
        y_exp = must(res, 'exported-forward', exported, x)
    if y_exp is None:
        return res
    if y_exp.shape != y_mps.shape:
        res.bad('output-shape', mps=list(y_mps.shape), exported=list(y_exp.shape))
    elif not torch.equal(y_mps, y_exp):
        res.bad('output-not-bit-identical', max_abs_err=float((y_mps - y_exp).abs().max()),
                n_diff=int((y_mps != y_exp).sum()))
    # the MPS model must still give the same answer after export (export re-uses its quantizers)
    with torch.no_grad():
        y_again = mps(x)
    if not torch.equal(y_again, y_mps):
        res.bad('mps-output-changed-by-export', max_abs_err=float((y_again - y_mps).abs().max()))
    # 'on every input': the exported network is a pure function of its input - a second input,
    # and the first one again after the MPS model and the export have run in between
    x2 = mu.mps_input(spec, case['xseed'] + 1000)
    with torch.no_grad():
        y2_exp = must(res, 'exported-forward', exported, x2)
        y2_mps = mps(x2)
        y_exp_again = must(res, 'exported-forward', exported, x)
    if y2_exp is not None and not torch.equal(y2_exp, y2_mps):
        res.bad('output-not-bit-identical', call='second input', n_diff=int((y2_exp != y2_mps).sum()),
                max_abs_err=float((y2_exp - y2_mps).abs().max()))
    if y_exp_again is not None and y_exp_again.shape == y_exp.shape and \
            not torch.equal(y_exp_again, y_exp):
        res.bad('exported-output-changes-between-calls', n_diff=int((y_exp_again != y_exp).sum()),
                max_abs_err=float((y_exp_again - y_exp).abs().max()))

    # precisions of exported layers == summary()
    summ = mps.summary()
    kinds, QuantIdentity = _quant_layers(exported)
    changed = 0
    for name, s in summ.items():
        em = exported.get_submodule(name)
        if isinstance(em, kinds):
            got = {'in_precision': int(em.in_quantizer.precision),
                   'out_precision': int(em.out_quantizer.precision),
                   'w_precision': int(em.w_quantizer.precision)}
            want = {k: s[k] for k in got}
            if got != want:
                res.bad('exported-precision-differs-from-summary', layer=name, exported=got,
                        summary=want)
            if len(case['w_prec']) > 1 and s['w_precision'] != max(case['w_prec']):
                changed += 1
            if len(case['a_prec']) > 1 and s['out_precision'] not in (-1, max(case['a_prec'])):
                changed += 1
        elif isinstance(em, QuantIdentity):
            if int(em.out_quantizer.precision) != s['out_precision']:
                res.bad('exported-precision-differs-from-summary', layer=name,
                        exported=int(em.out_quantizer.precision), summary=s['out_precision'])
            if len(case['a_prec']) > 1 and s['out_precision'] not in (-1, max(case['a_prec'])):
                changed += 1
        else:
            res.bad('exported-layer-type', layer=name, type=type(em).__name__)

    # consumer/producer rule on the exported fx graph, independent of plinio's bookkeeping
    def producers(node, seen):
        out = []
        for p in node.all_input_nodes:
            if p in seen:
                continue
            seen.add(p)
            if p.op == 'call_module' and isinstance(exported.get_submodule(str(p.target)),
                                                    kinds + (QuantIdentity,)):
                out.append(p)
            else:
                out += producers(p, seen)
        return out
    for n in exported.graph.nodes:
        if n.op != 'call_module':
            continue
        m = exported.get_submodule(str(n.target))
        if isinstance(m, kinds):
            for p in producers(n, set()):
                pm = exported.get_submodule(str(p.target))
                if int(pm.out_quantizer.precision) != int(m.in_quantizer.precision):
                    res.bad('input-precision-differs-from-producer-output', layer=str(n.target),
                            in_precision=int(m.in_quantizer.precision), producer=str(p.target),
                            producer_out=int(pm.out_quantizer.precision))
    varied = bool(y_mps.numel() > 1 and float(y_mps.std()) > 0)
    res.nontrivial = changed > 0 and varied
    res.ev(*ng.spec_features(spec))
    res.ev(f"nw:{len(case['w_prec'])}", f"na:{len(case['a_prec'])}",
           'gumbel' if case['gumbel'] else 'softmax', 'hard' if case['hard'] else 'soft',
           'train-first' if case['train_first'] else 'eval-only')
    if not varied:
        res.ev('constant-output')
    res.obs = {'decisions_not_at_initial_winner': changed,
               'summary': {k: {kk: vv for kk, vv in v.items()} for k, v in list(summ.items())[:4]}}
    return res


CHECK = Check(
    prop='C02',
    parts=[
        Part('nets', oracle, strategy=cases(),
             budget={'quick': 200, 'thorough': 800}, shards={'quick': 1, 'thorough': 16}),
        Part('nets-big', oracle, strategy=cases(big=True),
             budget={'quick': 0, 'thorough': 200}, shards={'quick': 1, 'thorough': 16}),
    ],
    rule=("Generated 2-D (3 in 4) and 1-D (Conv1d incl. depthwise, no BN) NetSpec networks (Conv2d incl. depthwise, Linear, Conv-BN, Linear-BN, "
          "residual add, flatten variants, pooling, activations), per-layer weight search, weight "
          "and activation precision tuples = any ordered subset of {2,4,8}, random selection "
          "coefficients with pairwise gaps >= 0.05 in random order, temperature log-uniform in "
          "[0.05, 20], gumbel/hard on/off, optionally a training-mode forward before eval; inputs "
          "uniform in [-0.2, 1.3] x clip. Non-trivial = at least one decision with >= 2 candidates "
          "whose winner is not the construction-time winner AND output not constant; distinct by "
          "case hash."),
    assumptions=[
        "bit identity (torch.equal) is required: export re-uses the quantizer objects and eval "
        "mode collapses the mixture to 1*q_selected + sum 0*q_i",
        "per-layer weight search only (the property's domain)",
    ],
)
