"""Mask assignment for PIT cases: Hypothesis strategies drawing *patterns* (which features / taps
die) and pure functions realising them as real parameter values and as reference masks.

Time-axis conventions (matching the PIT documentation): tap index j = 0 is the oldest input
sample seen by the kernel, j = K-1 the most recent one; dist = K-1-j.  The receptive-field mask
prunes a prefix of `nb` oldest taps, the dilation mask keeps taps whose dist is a multiple of
2**t.  The most recent tap is always kept.
"""
from __future__ import annotations

import math
from typing import Dict, List

from hypothesis import strategies as st

from . import netgen as ng


def gamma_len(K: int) -> int:
    return max(math.ceil(math.log2(K)), 1) if K > 1 else 1


def ref_time_mask(K: int, nb: int, t: int) -> List[bool]:
    return [(j >= nb and (K - 1 - j) % (2 ** t) == 0) for j in range(K)]


def _unit(seed: int, name: str, n: int):
    import torch
    g = ng._gen(seed, name)
    return torch.rand(n, generator=g).tolist(), (torch.randint(0, 2, (n,), generator=g) * 2 - 1).tolist()


def beta_values(K: int, nb: int, vseed: int, name: str) -> List[float]:
    """Real beta vector whose binarised cumulative mask prunes exactly the nb oldest taps."""
    u, sg = _unit(vseed, name + '/beta', K)
    v = []
    for j in range(K):
        if j < nb:
            v.append(sg[j] * 0.4 * u[j] / max(nb, 1))      # prefix sums stay <= 0.4
        elif j == nb:
            v.append(sg[j] * (0.6 + 1.4 * u[j]))          # crosses the threshold here
        else:
            v.append(sg[j] * 2.0 * u[j])                   # anything
    return v


def gamma_values(K: int, t: int, vseed: int, name: str) -> List[float]:
    """Real gamma vector whose binarised mask is the comb of step 2**t."""
    n = gamma_len(K)
    u, sg = _unit(vseed, name + '/gamma', n)
    v = []
    for i in range(n):
        if i < t:
            v.append(sg[i] * 0.4 * u[i] / max(t, 1))
        elif i == t:
            v.append(sg[i] * (0.6 + 1.4 * u[i]))
        else:
            v.append(sg[i] * 2.0 * u[i])
    return v


def alpha_values(pattern: List[bool], vseed: int, name: str) -> List[float]:
    u, sg = _unit(vseed, name + '/alpha', len(pattern))
    return [sg[i] * ((0.55 + 1.45 * u[i]) if a else 0.45 * u[i]) for i, a in enumerate(pattern)]


# ----------------------------------------------------------------------------------------
# strategies
# ----------------------------------------------------------------------------------------
def feature_pattern(width: int):
    return st.one_of(
        st.lists(st.booleans(), min_size=width, max_size=width),
        st.just([True] * width),
        st.just([False] * width),
    )


@st.composite
def pit_masks(draw, spec, fixed=None, time_masks=True):
    """Draws {'g': {group: pattern}, 't': {node: [nb, t]}} for a NetSpec."""
    og = ng.owner_groups(spec, fixed)
    # patterns are drawn for frozen groups too (they must be ignored by the implementation)
    g = {rep: draw(feature_pattern(w)) for rep, (w, _fr) in sorted(og.items())}
    t = {}
    if time_masks:
        for n in spec['nodes']:
            if n['op'] == 'conv1d' and n['stride'] == 1 and not n.get('excl'):
                K = n['k']
                if draw(st.integers(0, 3)) == 0:
                    t[n['id']] = [0, 0]
                else:
                    t[n['id']] = [draw(st.integers(0, K - 1)), draw(st.integers(0, gamma_len(K) - 1))]
    return {'g': g, 't': t}


def apply_pit_masks(pit, spec, masks, vseed: int, fixed=None):
    """Writes the drawn patterns into the PIT model.  Feature masks are written through one layer
    per reference width group; time masks into each conv1d's own maskers."""
    import torch
    from .pitutil import pit_layers
    group_of, frozen, members = ng.width_groups(spec, fixed)
    layers = pit_layers(pit)
    done = set()

    def write(param, values):
        # both common ways of setting a parameter by hand: copy_ under no_grad bumps the tensor's
        # version counter, a write through .data (the library's own idiom) does not
        t = torch.tensor(values, dtype=torch.float32)
        if vseed % 2:
            param.data.copy_(t)
        else:
            param.copy_(t)
    if (vseed // 2) % 2:
        # the state a search leaves behind: the model was already evaluated (eval-mode forward,
        # cost, summary) with the masks it had before - nothing of that may survive the write
        was = pit.training
        try:
            pit.eval()
            with torch.no_grad():
                ng.call(pit, ng.make_input(spec, 0, batch=2))
                cs = pit.cost_specification
                for name in (list(cs.keys()) if isinstance(cs, dict) else [None]):
                    pit.get_cost(name) if name is not None else pit.cost
                pit.summary()
                if vseed % 3 == 0:
                    pit.export()                 # ... and exported as it was
        except Exception:  # noqa - whatever fails here fails again, visibly, in the case proper
            pass
        pit.train(was)
    with torch.no_grad():
        for n in spec['nodes']:
            nid = n['id']
            if nid not in layers or n['op'] == 'reuse' or ng.is_dw(n):
                continue
            g = group_of[nid]
            if g in done or g not in masks['g']:
                continue
            done.add(g)
            masker = layers[nid].out_features_masker
            vals = alpha_values(masks['g'][g], vseed, g)
            if masker.alpha.numel() == len(vals):
                write(masker.alpha, vals)
        for nid, (nb, t) in masks['t'].items():
            if nid not in layers:
                continue
            layer = layers[nid]
            K = layer.kernel_size[0]
            write(layer.timestep_masker.beta, beta_values(K, nb, vseed, nid))
            write(layer.dilation_masker.gamma, gamma_values(K, t, vseed, nid))
    return done


def n_pruned(spec, masks, fixed=None) -> Dict[str, int]:
    sg = ng.searchable_groups(spec, fixed)
    feat = sum(sum(1 for a in pat[:-1] if not a) for g, pat in masks['g'].items() if g in sg)
    taps = 0
    for nid, (nb, t) in masks['t'].items():
        K = ng.node_by_id(spec, nid)['k']
        taps += K - sum(ref_time_mask(K, nb, t))
    return {'features': feat, 'taps': taps}
