"""C15 - cost-function lookup depends on the layer, not on registration order.

Exhaustive enumeration of registration orders x layer specs x defaults against a reference
model of the documented rule, plus a Hypothesis part that interleaves registrations for several
layer types in one CostSpec, and a part that re-registers every built-in specification in every
order.
"""
from __future__ import annotations

import itertools

from hypothesis import strategies as st

from ..core import Check, Part, Result

TYPES = ['Conv1d', 'Conv2d', 'Linear']
PATS = ['generic', 'dw', 'k3', 'user']


def _torch_type(name):
    import torch.nn as nn
    return getattr(nn, name)


def _constraint(tname, pat):
    """The constraint object registered for pattern `pat` (None for the unconstrained one)."""
    from plinio.cost.pattern import conv_dw_constraint, conv_3_constraint
    if pat == 'generic':
        return None
    if tname == 'Linear':
        # Linear specs have no groups / kernel: three independent user constraints
        return {'dw': _lin_a, 'k3': _lin_b, 'user': _user}[pat]
    return {'dw': conv_dw_constraint, 'k3': conv_3_constraint, 'user': _user}[pat]


def _lin_a(spec):
    return spec['in_features'] % 2 == 0


def _lin_b(spec):
    return spec['out_features'] % 2 == 0


def _user(spec):
    return bool(spec['user_flag'])


def _make_spec(tname, flags):
    """A layer description satisfying exactly the constraints whose flag is True."""
    if tname == 'Linear':
        return {'in_features': 4 if flags['dw'] else 5, 'out_features': 6 if flags['k3'] else 7,
                'user_flag': flags['user'], '_parameters': {'bias': None}}
    nd = 1 if tname == 'Conv1d' else 2
    cin = 6
    spec = {'in_channels': cin, 'out_channels': cin if flags['dw'] else 8,
            'groups': cin if flags['dw'] else 1,
            'kernel_size': (3,) * nd if flags['k3'] else (5,) * nd,
            'user_flag': flags['user'], '_parameters': {'bias': None}}
    return spec


def _reference(order, flags):
    """Documented rule.  Returns ('fn', pattern) | ('default',) | ('conflict',)."""
    constrained = [p for p in order if p != 'generic' and flags[p]]
    if len(constrained) >= 2:
        return ('conflict',)
    if len(constrained) == 1:
        return ('fn', constrained[0])
    if 'generic' in order:
        return ('fn', 'generic')
    return ('default',)


def _lookup(cs, tname, spec, fns):
    try:
        got = cs[(_torch_type(tname), spec)]
    except KeyError as e:
        return ('conflict',) if 'conflict' in str(e) else ('keyerror', str(e))
    for p, f in fns.items():
        if got is f:
            return ('fn', p)
    if got is cs.default:
        return ('default',)
    return ('other', repr(got))


def oracle_single(case) -> Result:
    from plinio.cost import CostSpec
    res = Result()
    tname, order, flags, default = case['type'], case['order'], case['flags'], case['default']
    cs = CostSpec(shared=True, default_behavior=default)
    fns = {p: (lambda s, _p=p: _p) for p in order}
    spec = _make_spec(tname, flags)
    for i, p in enumerate(order):
        cs[(_torch_type(tname), _constraint(tname, p))] = fns[p]
        if case.get('probe'):
            # lookups interleaved with the registrations: after every registration the answer
            # is the documented one for the patterns registered so far
            exp_i = _reference(order[:i + 1], flags)
            got_i = _lookup(cs, tname, spec, fns)
            if got_i != exp_i:
                res.bad('lookup-between-registrations-differs-from-documented-rule',
                        registered_so_far=order[:i + 1], expected=exp_i, got=got_i)
                return res
    # the library's own pattern constraints (plinio/cost/pattern.py) decide what the layer, built
    # here from its flags (depthwise / 3x3 / user property), satisfies
    for p in PATS[1:]:
        if bool(_constraint(tname, p)(spec)) != bool(flags[p]):
            res.bad('pattern-constraint-disagrees-with-the-layer', pattern=p, layer_type=tname,
                    layer_satisfies=bool(flags[p]))
            return res
    exp = _reference(order, flags)
    got = _lookup(cs, tname, spec, fns)
    if got != exp:
        res.bad('lookup-differs-from-documented-rule', expected=exp, got=got)
    if exp == ('default',) and got == ('default',):
        # the default is zero cost or an error, as configured
        try:
            v = cs.default(spec)
            if default != 'zero' or float(v) != 0.0:
                res.bad('default-behaviour', default=default, value=repr(v))
        except KeyError:
            if default != 'fail':
                res.bad('default-behaviour', default=default, value='KeyError')
    # lookup for a type with nothing registered -> default
    other = [t for t in TYPES if t != tname][0]
    g2 = _lookup(cs, other, _make_spec(other, flags), fns)
    if g2 != ('default',):
        res.bad('unregistered-type-not-default', got=g2)
    n_match = sum(1 for p in order if p != 'generic' and flags[p])
    res.nontrivial = len(order) >= 2 and n_match >= 1
    res.ev(f"expect:{exp[0]}", f"npat:{len(order)}",
           'constrained-before-generic' if ('generic' in order and any(
               flags[p] for p in order[:order.index('generic')] if p != 'generic')) else 'other-order')
    res.obs = {'expected': exp, 'got': got}
    return res


def enum_single(tier):
    for tname in TYPES:
        for r in range(0, 5):
            for subset in itertools.combinations(PATS, r):
                for order in itertools.permutations(subset):
                    for bits in itertools.product([False, True], repeat=3):
                        flags = dict(zip(PATS[1:], bits))
                        for default in ('zero', 'fail'):
                            yield {'type': tname, 'order': list(order), 'flags': flags,
                                   'default': default}
                            if len(order) >= 2:
                                yield {'type': tname, 'order': list(order), 'flags': flags,
                                       'default': default, 'probe': True}


# -- mixed-type interleavings (Hypothesis) ------------------------------------------------
@st.composite
def mixed_cases(draw):
    regs = []
    for t in TYPES:
        subset = draw(st.lists(st.sampled_from(PATS), unique=True, max_size=4))
        regs += [[t, p] for p in subset]
    regs = draw(st.permutations(regs))
    lookups = draw(st.lists(st.tuples(
        st.sampled_from(TYPES),
        st.fixed_dictionaries({p: st.booleans() for p in PATS[1:]})), min_size=1, max_size=6))
    return {'regs': [list(r) for r in regs], 'lookups': [[t, f] for t, f in lookups],
            'default': draw(st.sampled_from(['zero', 'fail']))}


def oracle_mixed(case) -> Result:
    from plinio.cost import CostSpec
    res = Result()
    cs = CostSpec(shared=False, default_behavior=case['default'])
    fns = {}
    for t, p in case['regs']:
        fns[(t, p)] = (lambda s, _k=(t, p): _k)
        cs[(_torch_type(t), _constraint(t, p))] = fns[(t, p)]
    matters = False
    for t, flags in case['lookups']:
        order = [p for tt, p in case['regs'] if tt == t]
        exp = _reference(order, flags)
        got = _lookup(cs, t, _make_spec(t, flags), {p: fns[(t, p)] for p in order})
        if got != exp:
            res.bad('lookup-differs-from-documented-rule', type=t, order=order, flags=flags,
                    expected=exp, got=got)
        # second lookup: lookups are pure
        got2 = _lookup(cs, t, _make_spec(t, flags), {p: fns[(t, p)] for p in order})
        if got2 != got:
            res.bad('lookup-not-repeatable', first=got, second=got2)
        if len(order) >= 2 and any(flags[p] for p in order if p != 'generic'):
            matters = True
        res.ev(f"expect:{exp[0]}")
    res.nontrivial = matters
    return res


# -- built-in specifications in every registration order --------------------------------
def _builtin_specs():
    import plinio.cost as pc
    out = {}
    for name in pc.__all__:
        obj = getattr(pc, name)
        if isinstance(obj, pc.CostSpec):
            out[name] = obj
    return out


def enum_builtin(tier):
    for name, cs in sorted(_builtin_specs().items()):
        for t, entries in cs.data.items():
            n = len(entries)
            for perm in itertools.permutations(range(n)):
                for dw in (False, True):
                    for k3 in (False, True):
                        yield {'spec': name, 'type': t.__name__, 'perm': list(perm),
                               'flags': {'dw': dw, 'k3': k3, 'user': False}}


def oracle_builtin(case) -> Result:
    from plinio.cost import CostSpec
    res = Result()
    orig = _builtin_specs()[case['spec']]
    t = _torch_type(case['type'])
    entries = orig.data[t]
    cs = CostSpec(shared=orig.shared, default_behavior='zero')
    for i in case['perm']:
        cs[(t, entries[i][0])] = entries[i][1]
    spec = _make_spec(case['type'], case['flags'])
    matching = [f for c, f in entries if c is not None and c(spec)]
    generic = [f for c, f in entries if c is None]
    if len(matching) >= 2:
        exp = 'conflict'
    elif len(matching) == 1:
        exp = matching[0]
    elif generic:
        exp = generic[-1]
    else:
        exp = cs.default
    try:
        got = cs[(t, spec)]
    except KeyError:
        got = 'conflict'
    if got is not exp and got != exp:
        res.bad('builtin-lookup-order-dependent', expected=getattr(exp, '__name__', exp),
                got=getattr(got, '__name__', got))
    res.nontrivial = len(entries) >= 2 and len(matching) >= 1
    res.obs = {'selected': getattr(got, '__name__', str(got))}
    return res


CHECK = Check(
    prop='C15',
    parts=[
        Part('orders', oracle_single, enumerate=enum_single,
             exhaustive_note='3 layer types x all ordered subsets of 4 patterns x 8 specs x 2 defaults '
                             '(x with / without a lookup after every registration)'),
        Part('builtin', oracle_builtin, enumerate=enum_builtin,
             exhaustive_note='every built-in CostSpec re-registered in every order'),
        Part('mixed', oracle_mixed, strategy=mixed_cases(),
             budget={'quick': 400, 'thorough': 4000}, shards={'quick': 1, 'thorough': 4}),
    ],
    rule=("orders: exhaustive over layer type x every ordered subset (<=4) of {unconstrained, "
          "depthwise, 3x3, user constraint} x the 8 specs satisfying each subset of constraints x "
          "both defaults, once with all registrations first and once with a lookup after every "
          "registration (each answer = the documented one for the patterns registered so far); "
          "builtin: every permutation of each built-in CostSpec's entries; mixed: "
          "Hypothesis interleavings of registrations for three layer types + repeated lookups. "
          "Non-trivial = at least two patterns registered for the looked-up type and at least "
          "one constrained pattern matches (so order could matter); distinct by case hash."),
    assumptions=[
        "reference model = documented rule in plinio/cost/README.md: constrained before "
        "unconstrained, default otherwise, conflict iff >=2 different constrained patterns match",
        "each pattern registered at most once per type (the property's domain)",
    ],
)
