"""Writes the brief handed to the independent sub-agents that seed breaking changes.

python -m vp.seedtask <round>      e.g. 7  ->  /tmp/seed7_<ID>/_seed/TASK.md for every property

The brief contains ONLY the text of the property (title, statement, quantifier), the rules for
working in the scratch worktree and one-line descriptions of the mechanisms earlier rounds already
used (so that a new round looks elsewhere).  Nothing about /verif, its checks or its generators.
The scratch worktrees (/tmp/seed<round>_<ID>, `git -C /repo worktree add --detach`) must exist.
"""
import json
import os
import sys

ROOT = os.path.dirname(os.path.dirname(os.path.abspath(__file__)))
SUFFIXES = ['', 'b', 'c', 'd', 'e', 'f', 'g', 'h', 'i']

TASK = '''# Task: seed one realistic regression that breaks a stated property

You work ONLY inside the scratch git worktree `{wt}` (a checkout of a Python library, `plinio`:
gradient-based NAS / mixed-precision search on torch.fx graphs). Never touch `/repo` or `/verif`,
never commit, never use `git stash` (the stash is shared between worktrees).

## The property (this is all you are given about it)

**{pid} - {title}**

{statement}

Quantified over: {quant}

## What to produce

Write ONE change to the library source (under `{wt}/plinio/`) that **breaks this property** while
the code still imports, and the existing unit tests (`unit_test/`) still pass - including the long
training tests, which you must not run but must reason about (do not change anything a training
loop's forward/backward depends on unless you are sure it stays differentiable and equivalent). It
must look like a change a maintainer could plausibly make (a refactor, an optimisation, a
"simplification", resolving a TODO, a caching shortcut, an off-by-one in a rarely used branch, a
wrong default, an `is`/`==` slip, a swapped argument, a stale attribute, a dtype/device tidy-up, an
in-place op, a changed iteration order, a too-wide except ...), not a sabotage that any smoke test
reveals. It must need **something specific to manifest**: a multi-step sequence of operations, an
unusual input or layer shape, a particular option combination or value range, or - best - two
cooperating sites that each look fine alone. The common paths and the cases the unit tests
exercise keep working.

Earlier changes for this property already used the mechanisms below, so choose a DIFFERENT
one (different function, preferably a different file; read the property sentence by sentence and
its quantifier item by item and pick a clause or a corner that none of these touches; subtle
numerical / ordering / aliasing / state-carry-over effects are welcome):
{prev}

Deliverables, all in `{wt}/_seed/`:
- `patch.diff`  = output of `git diff -- plinio` (run from `{wt}`), the change only.
- `demo.py`     = a self-contained demonstration: exits 0 on the unchanged code and non-zero (with a
  message) on the changed code. It must start with
  `import sys, os; sys.path.insert(0, os.path.dirname(os.path.dirname(os.path.abspath(__file__))))`
  so that it imports the worktree's `plinio` (the installed package is an editable install of
  `/repo`, which you must not test). Keep it under ~1 minute.
- `notes.md`    = what the change is, why it looks innocent, exactly what is needed for it to
  manifest, and the output of demo.py with and without the change.

To see the unchanged behaviour: `git apply -R _seed/patch.diff`, run, then `git apply _seed/patch.diff`.
Leave the worktree WITH the change applied.

## Rules for running things (important, the machine is shared)

- Python: `/venv/bin/python`. Always `export OMP_NUM_THREADS=2 MKL_NUM_THREADS=2`.
- Do NOT run the full test suite - the coordinator runs it on your patch. Run only the 1-3 test
  files closest to your change, e.g.
  `cd {wt} && OMP_NUM_THREADS=2 /venv/bin/python -m pytest -q -p no:cacheprovider -x --timeout=600 unit_test/test_methods/test_pit/test_pit_convert.py`
  and never the long training tests (`test_pit_search.py`, `test_mps_search.py`, `test_supernet_search.py`
  may be run only with `-k "not combined_loss and not no_train and not regularization and not descent"`).
  `unit_test/test_cost/test_mpic_latency.py` has a syntax error at this commit (known; ignore it).
  Nine tests in test_mps/test_backend_match.py, test_backend_maupiti.py and test_mps_convert.py::test_qinfo_layer
  fail on the unchanged code too; ignore those.
- Read the code first (`plinio/methods/...`, `plinio/cost/...`, `plinio/regularizers/...`,
  `plinio/graph/...`) and the unit tests to know what they cover.
- Be quick: aim to finish within ~20 minutes. Finish with a short report: the change, what it
  needs to manifest, demo results both ways.
'''


def main():
    rnd = int(sys.argv[1])
    needs = json.load(open(os.path.join(ROOT, 'seeded', 'needs.json')))
    for line in open(os.path.join(ROOT, 'properties.jsonl')):
        p = json.loads(line)
        pid = p['id']
        wt = f'/tmp/seed{rnd}_{pid}'
        prev = [needs[pid + s] for s in SUFFIXES[:rnd - 1] if pid + s in needs]
        text = TASK.format(wt=wt, pid=pid, title=p['title'], statement=p['statement'],
                           quant=p['quantifier']['text'],
                           prev='\n'.join(f'> {i + 1}. {t}' for i, t in enumerate(prev)))
        os.makedirs(os.path.join(wt, '_seed'), exist_ok=True)
        open(os.path.join(wt, '_seed', 'TASK.md'), 'w').write(text)
    print('ok')


if __name__ == '__main__':
    main()
