"""C17 - a checkpointed search resumes to an observationally identical model."""
from __future__ import annotations

import copy
import io

from hypothesis import strategies as st

from .. import mpsutil as mu
from .. import netgen as ng
from .. import snutil as su
from ..core import Check, Part, Result, must, safe_deepcopy
from .c18 import Adapter, structure, pit_cases as _pit18, sn_cases as _sn18, mps_cases as _mps18

temps = st.sampled_from([0.1, 0.5, 1.0, 3.0, 10.0])


def history(method):
    opts = {'pit': [st.tuples(st.just('discrete'), st.booleans())],
            'mps': [st.tuples(st.just('temperature'), temps), st.tuples(st.just('hard'), st.booleans()),
                    st.tuples(st.just('gumbel'), st.booleans()),
                    # fine-tuning mode: the coefficients saved by the last sampling are used
                    st.tuples(st.just('disable_sampling'), st.booleans()),
                    st.tuples(st.just('disable_sampling'), st.just(True))],
            'supernet': [st.tuples(st.just('temperature'), temps),
                         st.tuples(st.just('hard'), st.booleans())]}[method]
    op = st.one_of(st.tuples(st.just('step'), st.sampled_from(['sgd', 'sgd', 'adam'])),
                   st.tuples(st.just('step'), st.sampled_from(['sgd', 'adam'])),
                   st.tuples(st.just('opt'), st.one_of(*opts)),
                   st.tuples(st.just('opt'), st.one_of(*opts)),
                   st.tuples(st.just('mode'), st.sampled_from(['train', 'eval'])),
                   # which parameter group trains (a run-time flag, not part of the checkpoint
                   # and not observable: the usual warm-up / search / fine-tune phases)
                   st.tuples(st.just('phase'), st.sampled_from(
                       ['train_net_only', 'train_nas_only', 'train_net_and_nas'])))
    free = st.lists(op, min_size=0, max_size=7).map(lambda l: [list(o) for o in l])
    # the usual shape of a search - warm-up, search, fine-tuning, each with optimizer steps - is
    # reached too rarely by independent draws: a third of the histories follows such a script,
    # with up to three free operations inserted anywhere
    step = ['step', 'sgd']
    scripts = [
        [['phase', 'train_net_only'], step, ['phase', 'train_net_and_nas'], step],
        [['phase', 'train_net_only'], step, ['phase', 'train_nas_only'], step, step],
        [['phase', 'train_nas_only'], step, ['phase', 'train_net_only'], step],
        [['phase', 'train_net_and_nas'], step, ['mode', 'eval'], step, ['mode', 'train'], step],
    ]

    @st.composite
    def scripted(draw):
        h = [list(o) for o in draw(st.sampled_from(scripts))]
        for extra in draw(st.lists(op, min_size=0, max_size=3)):
            h.insert(draw(st.integers(0, len(h))), list(extra))
        return h
    return st.one_of(free, free, scripted())


@st.composite
def cases(draw, method):
    base = draw({'pit': _pit18, 'supernet': _sn18, 'mps': _mps18}[method]())
    base.pop('ops')
    base['history'] = draw(history(method))
    base['lr'] = draw(st.sampled_from([0.01, 0.05, 0.2]))
    # validation right after resuming (eval pass first) is the more revealing order: what only a
    # training-mode pass refreshes stays stale
    base['eval_first'] = draw(st.sampled_from([True, True, False]))
    if method == 'pit':
        base['fold_bn'] = draw(st.sampled_from([True, True, False]))
    # the observation passes run with autograd on (a training loop) or off (validation)
    base['obs_grad'] = draw(st.booleans())
    return base


def _reraise(e):
    raise e


def apply_option(method, m, name, val):
    if method == 'pit':
        m.discrete_cost = val
    elif method == 'mps':
        m.update_softmax_options(**{name: val})
    else:
        m.update_softmax_options(**{name: val})


def observe(ad: Adapter, m, res, tag, eval_first=False, grad=False):
    """Training-mode and eval-mode observations (soft / Gumbel sampling depends on temperature
    and flags; eval-mode uses the arg-max decisions).  eval_first: the very first forward pass
    after restoring is an eval-mode one (validation right after resuming), so nothing a
    training-mode pass would refresh is refreshed before the outputs are compared."""
    import torch
    import contextlib
    x = ad.probe(seed=5)
    obs = {}
    ctx = contextlib.nullcontext if grad else torch.no_grad
    for phase in (('eval', 'train') if eval_first else ('train', 'eval')):
        if phase == 'train':
            m.train()
            torch.manual_seed(4241)
            with ctx():
                yt = must(res, f'{tag}-train-forward', ng.call, m, x)
            if yt is None:
                return None
            obs['train_output'] = yt.detach().clone()
            obs['train_costs'] = {n: float(m.get_cost(n)) for n in ad.specs}
        else:
            m.eval()
            torch.manual_seed(4242)
            with ctx():
                y = must(res, f'{tag}-forward', ng.call, m, x)
            if y is None:
                return None
            obs['output'] = y.detach().clone()
            obs['costs'] = {n: float(m.get_cost(n)) for n in ad.specs}
            obs['summary'] = repr(m.summary())
    m.eval()
    # whether export succeeds is the business of C01/C02/C03/C08: here only original == restored
    try:
        e = m.export()
        obs['export_structure'] = structure(e)
        with torch.no_grad():
            obs['export_output'] = ng.call(copy.deepcopy(e).eval(), x).clone()
    except Exception as ex:  # noqa
        obs['export_structure'] = f"raised:{type(ex).__name__}:{str(ex)[:80]}"
        obs['export_output'] = torch.zeros(1)
    return obs


def same(a, b):
    import torch
    return a.shape == b.shape and torch.equal(torch.nan_to_num(a), torch.nan_to_num(b)) and \
        torch.equal(torch.isnan(a), torch.isnan(b))


def oracle(case) -> Result:
    import torch
    res = Result()
    method = case['method']
    ad = Adapter(method, case)
    A, x0 = ad.build()
    A.train()
    torch.manual_seed(17)
    ng.call(A, ad.probe(seed=9))
    opts = {}
    steps = 0
    decisions0 = repr(A.summary())
    opt_objs = {}
    for k, (op, arg) in enumerate(case['history']):
        if op == 'step':
            params = [p for p in A.parameters() if p.requires_grad]
            if not params:
                continue              # nothing trains in this phase (e.g. no NAS parameter)
            if arg not in opt_objs:
                opt_objs[arg] = (torch.optim.SGD(params, lr=case['lr']) if arg == 'sgd'
                                 else torch.optim.Adam(params, lr=case['lr']))
            o = opt_objs[arg]
            torch.manual_seed(100 + k)
            y = ng.call(A, ad.probe(seed=20 + k))
            loss = (y ** 2).mean() + 1e-3 * sum(A.get_cost(n) for n in ad.specs)
            if not loss.requires_grad:
                continue              # only frozen (detached) masks are 'trainable' in this phase
            o.zero_grad()
            try:
                loss.backward()
            except RuntimeError as e:
                if opts.get('disable_sampling') and 'second time' in str(e):
                    # sampling disabled: the selectors keep the coefficient tensor of the last
                    # sampled forward, whose graph an earlier backward() freed (see C11) - no
                    # step is taken, the history goes on
                    res.ev('stale-coefficient-graph-while-sampling-disabled')
                    continue
                must(res, 'backward', _reraise, e)
                return res
            o.step()
            steps += 1
        elif op == 'opt':
            name, val = arg
            must(res, 'option', apply_option, method, A, name, val)
            opts[name] = val
        elif op == 'mode':
            A.train(arg == 'train')
        elif op == 'phase':
            must(res, arg, getattr(A, arg))
            opt_objs.clear()          # a new phase builds its optimizer over the new group
        if res.discrepancies:
            return res
    if any(not bool(torch.isfinite(p).all()) for p in A.parameters()):
        res.discarded = 'training-diverged-to-non-finite-parameters'
        return res
    # checkpoint
    ckpt_training = A.training
    buf = io.BytesIO()
    torch.save(A.state_dict(), buf)
    buf.seek(0)
    sd = torch.load(buf)
    # fresh wrapper from the pristine seed, same constructor arguments, same Python-level options
    B, _ = ad.build()
    for name, val in opts.items():
        if method == 'mps' and name == 'temperature':
            continue            # kept in a buffer by the library: must come back from the state
        apply_option(method, B, name, val)
    try:
        rep = B.load_state_dict(sd, strict=True)
        if rep.missing_keys or rep.unexpected_keys:
            res.bad('state-dict-keys-mismatch', missing=rep.missing_keys[:4],
                    unexpected=rep.unexpected_keys[:4])
    except RuntimeError as e:
        res.bad('load-state-dict-failed', message=str(e)[:300])
        return res
    ef = bool(case.get('eval_first', False))
    og = bool(case.get('obs_grad', False))
    oa = observe(ad, A, res, 'original', ef, og)
    ob = observe(ad, B, res, 'restored', ef, og)
    if oa is None or ob is None:
        return res
    if not same(oa['output'], ob['output']):
        res.bad('restored-output-differs', max_abs=float((oa['output'] - ob['output']).abs().max()),
                options=opts)
    if not same(oa['train_output'], ob['train_output']):
        res.bad('restored-training-mode-output-differs', options=opts,
                max_abs=float((oa['train_output'] - ob['train_output']).abs().max()))
    if oa['train_costs'] != ob['train_costs']:
        res.bad('restored-training-mode-cost-differs', original=oa['train_costs'],
                restored=ob['train_costs'], options=opts)
    if oa['costs'] != ob['costs']:
        res.bad('restored-cost-differs', original=oa['costs'], restored=ob['costs'], options=opts)
    if oa['summary'] != ob['summary']:
        res.bad('restored-summary-differs')
    if oa['export_structure'] != ob['export_structure']:
        res.bad('restored-export-structure-differs')
    elif not same(oa['export_output'], ob['export_output']):
        res.bad('restored-export-output-differs',
                max_abs=float((oa['export_output'] - ob['export_output']).abs().max()))
    changed = repr(A.summary()) != decisions0
    res.nontrivial = (steps >= 1 and changed) or bool(opts)
    res.ev(f"steps:{min(steps, 4)}", *[f"opt:{k}" for k in opts],
           'decision-changed' if changed else 'decision-unchanged',
           'checkpoint-in-train-mode' if ckpt_training else 'checkpoint-in-eval-mode',
           'first-pass-after-restore:eval' if ef else 'first-pass-after-restore:train',
           'observed-with-autograd' if og else 'observed-under-no_grad')
    res.obs = {'steps': steps, 'options': opts, 'state_dict_entries': len(sd)}
    return res


CHECK = Check(
    prop='C17',
    parts=[
        Part('pit', oracle, strategy=cases('pit'),
             budget={'quick': 120, 'thorough': 600}, shards={'quick': 1, 'thorough': 16}),
        Part('mps', oracle, strategy=cases('mps'),
             budget={'quick': 100, 'thorough': 600}, shards={'quick': 1, 'thorough': 16}),
        Part('supernet', oracle, strategy=cases('supernet'),
             budget={'quick': 100, 'thorough': 600}, shards={'quick': 1, 'thorough': 16}),
    ],
    rule=("Generated PIT / MPS (per-layer and per-channel) / SuperNet models with drawn masks / "
          "coefficients; history = 0..7 of {optimizer step (SGD or Adam on all trainable network "
          "and architectural parameters, lr in {0.01,0.05,0.2}, random data), option change "
          "(discrete_cost / temperature / hard / gumbel / disable_sampling), train() / eval(), train_net_only / "
          "train_nas_only / train_net_and_nas (on the original only: trainability is run-time "
          "state, not an observable)}; then torch.save -> "
          "torch.load of the state_dict, a fresh wrapper built from the pristine seed with the same "
          "constructor arguments and the same final Python-level options (the MPS temperature, "
          "kept in a buffer, is NOT re-applied), load_state_dict(strict=True), one training-mode and one eval-mode forward in a drawn "
          "order, with autograd on or under no_grad (drawn); eval "
          "output, all cost values, summary and exported network (structure + output) must be "
          "bit-identical to the original's. Non-trivial = at least one step that changed a "
          "discrete decision, or an option changed before the checkpoint; distinct by case hash."),
    assumptions=[
        "'crash points' are checkpoint positions inside a training history (the library has no "
        "persistence layer of its own)",
        "SuperNet temperature / hard flag and PIT discrete_cost are Python-level options that the "
        "user re-applies; everything else must come from the state_dict",
    ],
)
