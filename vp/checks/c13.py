"""C13 - quantizers emit values that fit their declared bit-width and scale."""
from __future__ import annotations

import math

from hypothesis import strategies as st

from .. import netgen as ng
from ..core import Check, Part, Result

W_BITS = [0, 2, 3, 4, 5, 6, 7, 8]
A_BITS = [2, 3, 4, 5, 6, 7, 8]
CH_KINDS = ['random', 'random', 'constant', 'zero', 'mixed', 'onehot', 'half-points']


# ----------------------------------------------------------------------------------------
# tensors
# ----------------------------------------------------------------------------------------
def weight_tensor(case):
    """(C, N) float32 tensor; channel c has magnitude 2**exp[c] and the drawn kind."""
    import torch
    g = ng._gen(case['xseed'], 'w')
    C, N, b = len(case['exps']), case['n'], case['bits']
    x = torch.randn(C, N, generator=g)
    for c, (e, kind) in enumerate(zip(case['exps'], case['kinds'])):
        m = 2.0 ** e
        if kind == 'constant':
            x[c] = m * (1 if c % 2 == 0 else -1)
        elif kind == 'zero':
            x[c] = 0.0
        elif kind == 'mixed':
            x[c] = x[c].abs() * m
            x[c, ::2] *= -1
        elif kind == 'onehot':
            x[c] = 0.0
            x[c, c % N] = -m if c % 2 else m
        elif kind == 'half-points' and b >= 2:
            # values on / next to the rounding half-points of this channel's own grid
            steps = 2 ** b - 1
            scale = 2 * m / steps
            lv = torch.arange(-(2 ** (b - 1)) - 1, 2 ** (b - 1) + 1, dtype=torch.float32)
            pts = torch.cat([(lv + 0.5) * scale, lv * scale])
            pts = pts[pts.abs() <= m]
            pts = torch.cat([pts, torch.nextafter(pts, torch.tensor(float('inf'))),
                             torch.nextafter(pts, torch.tensor(float('-inf')))])
            pts = pts[pts.abs() <= m]
            idx = torch.randint(0, len(pts), (N,), generator=g)
            x[c] = pts[idx]
            x[c, 0] = m      # pins the channel range
        else:
            x[c] = x[c] * m / max(float(x[c].abs().max()), 1e-30) * 1.0
    return x.float()


def act_tensor(case):
    import torch
    g = ng._gen(case['xseed'], 'a')
    clip, b, N = case['clip'], case['bits'], case['n']
    sf = (2 ** b - 1) / (torch.tensor(clip, dtype=torch.float32) + 1e-3)
    parts = [torch.randn(N, generator=g) * clip,
             torch.rand(N, generator=g) * clip,
             (torch.randn(N, generator=g) * 2.0 ** case['exp'])]
    lv = torch.arange(0, 2 ** b + 1, dtype=torch.float32)
    pts = lv / sf
    pts = torch.cat([pts, torch.tensor([0.0, clip, -clip, 2 * clip, 8192.0, -8192.0,
                                        2.0 ** -30, -2.0 ** -30])])
    pts = torch.cat([pts, torch.nextafter(pts, torch.tensor(float('inf'))),
                     torch.nextafter(pts, torch.tensor(float('-inf')))])
    parts.append(pts)
    return torch.cat(parts).float()


# ----------------------------------------------------------------------------------------
# oracles
# ----------------------------------------------------------------------------------------
def oracle_weight(case) -> Result:
    import torch
    from plinio.methods.mps.quant.quantizers import MinMaxWeight
    res = Result()
    b = case['bits']
    x = weight_tensor(case)
    if case.get('conv_shape'):
        x = x.view(x.shape[0], -1, 1, 1) if x.shape[1] % 2 else x.view(x.shape[0], -1, 2)
    C = x.shape[0]
    b0 = case.get('built_at', b)
    q_int = MinMaxWeight(b0, C, symmetric=True, dequantize=False)
    q_deq = MinMaxWeight(b0, C, symmetric=True, dequantize=True)
    for q in (q_int, q_deq):
        if b0 != b:
            q.precision = b     # the public setter: the object now declares b bits
        if case.get('eval'):
            q.eval()
        if case.get('warm'):
            # an earlier tensor of the same shape with a wider / narrower range
            q(x.clone() * (37.0 if case['xseed'] % 2 else 1 / 37.0) + 0.5)
    yi = q_int(x.clone())
    if case.get('warm') or case.get('eval'):
        # the output is a function of the current input only: a fresh object agrees bit by bit
        y_fresh = MinMaxWeight(b, C, symmetric=True, dequantize=False)(x.clone())
        if not torch.equal(torch.nan_to_num(yi), torch.nan_to_num(y_fresh)):
            res.bad('weight-output-depends-on-earlier-calls', bits=b, eval=bool(case.get('eval')),
                    earlier_call=bool(case.get('warm')),
                    n_diff=int((yi != y_fresh).sum()))
    yd = q_deq(x.clone())
    scale = q_deq.scale
    if not torch.isfinite(yi).all() or not torch.isfinite(yd).all() or not torch.isfinite(scale).all():
        res.bad('weight-non-finite', bits=b)
        return res
    if b == 0:
        if yi.abs().max() != 0 or yd.abs().max() != 0:
            res.bad('weight-0bit-not-zero')
        if scale.abs().max() != 0:
            res.bad('weight-0bit-scale-not-zero')
        res.nontrivial = True
        res.ev('bits:0')
        return res
    lo, hi = -(2 ** (b - 1)), 2 ** (b - 1) - 1
    if not torch.equal(yi, torch.round(yi)):
        res.bad('weight-not-integral', bits=b)
    if yi.min() < lo or yi.max() > hi:
        res.bad('weight-out-of-signed-range', bits=b, min=float(yi.min()), max=float(yi.max()),
                range=[lo, hi])
    shape = (C,) + (1,) * (x.dim() - 1)
    sv = scale.view(shape)
    if not torch.equal(yd, yi * sv):
        res.bad('weight-dequantized-differs-from-int-times-scale', bits=b,
                max_abs=float((yd - yi * sv).abs().max()))
    if (sv <= 0).any():
        res.bad('weight-scale-not-positive', bits=b)
    err = (x - yd).abs()
    bound = sv * (1 + 1e-5) + 1e-37
    if (err > bound).any():
        i = int(torch.argmax((err - bound).flatten()))
        res.bad('weight-error-above-one-step', bits=b, err=float(err.flatten()[i]),
                step=float(sv.expand_as(err).flatten()[i]), x=float(x.flatten()[i]))
    # monotone per channel
    flat = x.view(C, -1)
    order = torch.argsort(flat, dim=1, stable=True)
    ys = torch.gather(yi.view(C, -1), 1, order)
    if (ys[:, 1:] < ys[:, :-1]).any():
        res.bad('weight-not-monotone', bits=b)
    levels = int(torch.unique(yi).numel())
    res.nontrivial = levels >= 3 or b <= 2
    res.ev(f"bits:{b}", *[f"ch:{k}" for k in set(case['kinds'])])
    res.obs = {'distinct_levels': levels, 'min': float(yi.min()), 'max': float(yi.max())}
    res.ev('history:' + ('eval' if case.get('eval') else 'train') + ('+earlier-call' if case.get('warm') else ''))
    return res


def oracle_act(case) -> Result:
    import torch
    from plinio.methods.mps.quant.quantizers import PACTAct
    res = Result()
    b, clip = case['bits'], case['clip']
    x = act_tensor(case)
    b0 = case.get('built_at', b)
    q_int = PACTAct(b0, init_clip_val=clip, dequantize=False)
    q_deq = PACTAct(b0, init_clip_val=clip, dequantize=True)
    if b0 != b:
        q_int.precision = b     # the public setter: the object now declares b bits
        q_deq.precision = b
    with torch.no_grad():
        yi = q_int(x.clone())
        yd = q_deq(x.clone())
    scale = q_deq.scale
    cl = float(q_deq.clip_val.data[0])
    if not torch.isfinite(yi).all() or not torch.isfinite(yd).all():
        res.bad('act-non-finite', bits=b, clip=clip)
        return res
    if not torch.equal(yi, torch.round(yi)):
        res.bad('act-not-integral', bits=b, clip=clip)
    if yi.min() < 0 or yi.max() > 2 ** b - 1:
        res.bad('act-out-of-unsigned-range', bits=b, clip=clip, min=float(yi.min()),
                max=float(yi.max()))
    if (yi[x <= 0] != 0).any() or (yd[x <= 0] != 0).any():
        res.bad('act-nonpositive-input-not-zero', bits=b, clip=clip)
    top = yi[x >= cl]
    if top.numel() and (top != top[0]).any():
        res.bad('act-no-common-top-level', bits=b, clip=clip, levels=torch.unique(top).tolist())
    if top.numel() and yi.max() > top[0]:
        res.bad('act-level-above-top', bits=b, clip=clip)
    pos = x >= 0
    if (yd[pos] > x[pos] * (1 + 1e-6) + 1e-38).any():
        i = int(torch.argmax((yd[pos] - x[pos])))
        res.bad('act-output-exceeds-input', bits=b, clip=clip, x=float(x[pos][i]),
                q=float(yd[pos][i]))
    inside = (x >= 0) & (x <= cl)
    step = (cl + 1e-3) / (2 ** b - 1)
    if ((x[inside] - yd[inside]) >= step * (1 + 1e-5)).any():
        res.bad('act-error-not-below-one-step', bits=b, clip=clip,
                worst=float((x[inside] - yd[inside]).max()), step=step)
    order = torch.argsort(x, stable=True)
    if (yi[order][1:] < yi[order][:-1]).any():
        res.bad('act-not-monotone', bits=b, clip=clip)
    # fake-quantised == integer x reported scale, up to the quantizer's own 1e-3 stabiliser
    rel = 1e-3 / cl + 1e-5        # (yd - ref)/ref = 1e-3/clip exactly, by construction
    ref = yi * scale
    if ((yd - ref).abs() > rel * ref.abs() + 1e-30).any():
        res.bad('act-dequantized-differs-from-int-times-scale', bits=b, clip=clip,
                worst_rel=float(((yd - ref).abs() / ref.abs().clamp(min=1e-30)).max()), allowed=rel)
    levels = int(torch.unique(yi).numel())
    res.nontrivial = levels >= 3
    res.ev(f"bits:{b}", 'clip<1' if clip < 1 else 'clip>=1')
    res.obs = {'distinct_levels': levels, 'top_level': float(top[0]) if top.numel() else None}
    return res


def oracle_bias(case) -> Result:
    import torch
    from plinio.methods.mps.quant.quantizers import QuantizerBias
    res = Result()
    g = ng._gen(case['xseed'], 'b')
    C = len(case['sw_exps'])
    bvals = torch.randn(C, generator=g) * 2.0 ** case['exp']
    for c, k in enumerate(case['kinds']):
        if k == 'zero':
            bvals[c] = 0.0
    b2 = bvals + torch.rand(C, generator=g) * 2.0 ** case['exp']      # b2 >= b1 element-wise
    s_w = torch.tensor([0.0 if e is None else 2.0 ** e for e in case['sw_exps']])
    s_w = s_w * (1 + torch.rand(C, generator=g) * (s_w > 0))
    s_a = torch.tensor(case['s_a'], dtype=torch.float32)
    q_int = QuantizerBias(32, C, dequantize=False)
    q_deq = QuantizerBias(32, C, dequantize=True)
    yi = q_int(bvals.clone(), s_a, s_w)
    yd = q_deq(bvals.clone(), s_a, s_w)
    yi2 = q_int(b2.clone(), s_a, s_w)
    s = s_a * s_w
    if not torch.isfinite(yi).all() or not torch.isfinite(yd).all():
        res.bad('bias-non-finite', s=s.tolist(), b=bvals.tolist())
        return res
    z = s == 0
    if (yi[z] != 0).any() or (yd[z] != 0).any():
        res.bad('bias-not-zero-where-scale-zero')
    if not torch.equal(yi, torch.round(yi)):
        res.bad('bias-not-integral')
    if not torch.equal(yd, q_deq.scale * yi):
        res.bad('bias-dequantized-differs-from-int-times-scale')
    if not torch.equal(q_deq.scale, s):
        res.bad('bias-reported-scale-differs-from-sa-times-sw')
    if (yi2 < yi).any():
        res.bad('bias-not-monotone')
    big = s >= 1e-7
    err = (bvals - yd).abs()
    bound = s / 2 * (1 + 1e-5) + bvals.abs() * 2.0 ** -22 + 1e-38
    if (err[big] > bound[big]).any():
        i = int(torch.argmax((err - bound) * big))
        res.bad('bias-error-above-half-step', err=float(err[i]), step=float(s[i]), b=float(bvals[i]))
    res.nontrivial = bool(big.any()) and int(torch.unique(yi).numel()) >= 2
    res.ev('has-zero-scale' if bool(z.any()) else 'no-zero-scale',
           'has-tiny-scale' if bool(((s > 0) & (s < 1e-7)).any()) else 'no-tiny-scale')
    res.obs = {'ints': yi.tolist()[:6], 'scale': s.tolist()[:6]}
    return res


# ----------------------------------------------------------------------------------------
# strategies / enumerations
# ----------------------------------------------------------------------------------------
@st.composite
def weight_cases(draw):
    C = draw(st.integers(1, 6))
    return {'bits': draw(st.sampled_from(W_BITS)), 'n': draw(st.sampled_from([1, 2, 3, 9, 32])),
            'exps': draw(st.lists(st.integers(-30, 13), min_size=C, max_size=C)),
            'kinds': draw(st.lists(st.sampled_from(CH_KINDS), min_size=C, max_size=C)),
            'conv_shape': draw(st.booleans()), 'xseed': draw(st.integers(0, 10 ** 6)),
            # call history of the quantizer object: its output depends on the current input only
            'eval': draw(st.booleans()), 'warm': draw(st.booleans()),
            # one case in four: the object was constructed at another precision and re-declared
            # through the `precision` setter
            **({'built_at': draw(st.sampled_from([2, 4, 8]))} if draw(st.integers(0, 3)) == 0 else {})}


@st.composite
def act_cases(draw):
    e = draw(st.floats(min_value=math.log(0.05), max_value=math.log(1e3)))
    return {'bits': draw(st.sampled_from(A_BITS)), 'clip': round(math.exp(e), 5),
            'n': draw(st.sampled_from([4, 32, 128])), 'exp': draw(st.integers(-30, 13)),
            'xseed': draw(st.integers(0, 10 ** 6)),
            **({'built_at': draw(st.sampled_from([2, 4, 8]))} if draw(st.integers(0, 3)) == 0 else {})}


@st.composite
def bias_cases(draw):
    C = draw(st.integers(1, 6))
    return {'exp': draw(st.integers(-20, 13)),
            'sw_exps': draw(st.lists(st.one_of(st.none(), st.integers(-40, 3)), min_size=C,
                                     max_size=C)),
            'kinds': draw(st.lists(st.sampled_from(['random', 'random', 'zero']), min_size=C,
                                   max_size=C)),
            's_a': draw(st.sampled_from([0.0, 1.0, 0.5, 1 / 255, 6 / 255, 1e-3, 1e-5, 3.0])),
            'xseed': draw(st.integers(0, 10 ** 6))}


def enum_weight_boundaries(tier):
    for b in (2, 3, 4, 8):
        for e in (-30, -12, -3, 0, 1, 7, 13):
            for xs in range(3 if tier == 'quick' else 12):
                yield {'bits': b, 'n': 64 if b < 8 else 1600, 'exps': [e, e - 1, e],
                       'kinds': ['half-points', 'half-points', 'constant'], 'conv_shape': False,
                       'xseed': xs}


def enum_act_boundaries(tier):
    clips = [0.05, 0.3, 1.0, 6.0, 37.5, 1000.0] if tier == 'quick' else \
        [0.05, 0.07, 0.1, 0.3, 0.5, 1.0, 2.0, 6.0, 10.0, 37.5, 100.0, 333.3, 1000.0]
    for b in (2, 3, 4, 8):
        for clip in clips:
            yield {'bits': b, 'clip': clip, 'n': 8, 'exp': 0, 'xseed': b}


CHECK = Check(
    prop='C13',
    parts=[
        Part('weight-boundaries', oracle_weight, enumerate=enum_weight_boundaries,
             exhaustive_note='bits {2,3,4,8}: every level and rounding half-point of the channel '
                             'grid, one ulp below and above, for 7 magnitudes'),
        Part('act-boundaries', oracle_act, enumerate=enum_act_boundaries,
             exhaustive_note='bits {2,3,4,8}: every level boundary n/sf (+-1 ulp), 0, clip, +-ulp, '
                             'for a grid of clip values'),
        Part('weights', oracle_weight, strategy=weight_cases(),
             budget={'quick': 1500, 'thorough': 8000}, shards={'quick': 1, 'thorough': 16}),
        Part('activations', oracle_act, strategy=act_cases(),
             budget={'quick': 1000, 'thorough': 6000}, shards={'quick': 1, 'thorough': 16}),
        Part('bias', oracle_bias, strategy=bias_cases(),
             budget={'quick': 1000, 'thorough': 6000}, shards={'quick': 1, 'thorough': 16}),
    ],
    rule=("One case = one tensor pushed through a quantizer built directly. Weights: 1..6 "
          "channels of magnitude 2^e, e in [-30,13], kinds random/constant/zero/mixed-sign/one-hot/"
          "on-the-half-points, 1..32 elements per channel, bits {0,2..8}, symmetric. Activations: "
          "bits 2..8, clip log-uniform in [0.05,1e3], normal/uniform samples plus every level "
          "boundary +-1 ulp, 0, clip, +-8192, +-2^-30. Bias: values 2^[-20,13], weight scales 0 or "
          "2^[-40,3], activation scale from a fixed set incl. 0. Non-trivial = at least 3 distinct "
          "output levels (weights/activations; any 0-bit / 2-bit weight case) or a non-degenerate "
          "scale with >= 2 distinct integers (bias); distinct by case hash."),
    assumptions=[
        "PACT: fake-quantised == int x reported scale only up to the quantizer's own 1e-3 "
        "stabiliser: relative deviation <= 1e-3/clip (+1e-5), which is what the code produces exactly",
        "bias: |s| <= 1e-8 is treated as zero by the code (isclose); the half-step error bound is "
        "asserted for s == 0 and s >= 1e-7, with a float32 representation allowance 2^-22*|b|",
        "float32 tolerances: 1e-5 relative on step comparisons, 1e-6 relative on output<=input",
    ],
)
