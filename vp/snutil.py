"""SuperNet cases: NetSpecs with 'snmodule' nodes (choice blocks), branch builders and helpers."""
from __future__ import annotations

from typing import Dict, List

from hypothesis import strategies as st

from . import netgen as ng

_classes = {}


def _block_classes():
    if _classes:
        return _classes
    import torch.nn as nn
    import torch.nn.functional as F

    class UserBlock(nn.Module):
        """A user-defined two-layer block; the tail is a module or a functional op."""

        def __init__(self, c1, c2, tail):
            super().__init__()
            self.c1 = c1
            self.c2 = c2
            self.tail = tail
            if tail == 'mod':
                self.act = nn.ReLU()

        def forward(self, x):
            y = self.c2(F.relu(self.c1(x)))
            if self.tail == 'mod':
                return self.act(y)
            if self.tail == 'func':
                return F.relu(y)
            return y

    _classes['UserBlock'] = UserBlock
    return _classes


def _conv(family, cin, cout, k, groups=1, bias=True, padding=None):
    import torch.nn as nn
    if family == '1d':
        return nn.Conv1d(cin, cout, k, padding='same' if padding is None else padding,
                         groups=groups, bias=bias)
    return nn.Conv2d(cin, cout, k, padding=k // 2 if padding is None else padding, groups=groups,
                     bias=bias)


def make_branch(b, cin, cout, family, wseed, name):
    import torch.nn as nn
    kind = b['kind']
    if kind == 'conv':
        m = _conv(family, cin, cout, b['k'], bias=b.get('bias', True))
    elif kind == 'seq':
        m = nn.Sequential(_conv(family, cin, b['mid'], 3), nn.ReLU(),
                          _conv(family, b['mid'], cout, b.get('k2', 3), bias=b.get('bias', True)))
    elif kind == 'block':
        m = _block_classes()['UserBlock'](_conv(family, cin, b['mid'], 3),
                                          _conv(family, b['mid'], cout, 1), b['tail'])
    elif kind == 'grow':
        # the inner layer works at ANOTHER resolution than the block: an over-padded 3-tap
        # convolution (output grows by 2 per axis) followed by an un-padded one (shrinks back)
        m = nn.Sequential(_conv(family, cin, b['mid'], 3, padding=2), nn.ReLU(),
                          _conv(family, b['mid'], cout, 3, bias=b.get('bias', True), padding=0))
    elif kind == 'dwsep':
        m = nn.Sequential(_conv(family, cin, cin, 3, groups=cin), _conv(family, cin, cout, 1))
    elif kind == 'identity':
        assert cin == cout
        m = nn.Identity()
    else:
        raise ValueError(kind)
    for sub_name, sub in m.named_modules():
        ng.init_module(sub, wseed, f"{name}/{sub_name}")
    return m


def sn_factory(n, in_shape, wseed):
    from plinio.methods.supernet import SuperNetModule
    cin = in_shape[0]
    fam = '1d' if len(in_shape) == 2 else '2d'
    branches = [make_branch(b, cin, n['cout'], fam, wseed, f"{n['id']}.b{i}")
                for i, b in enumerate(n['branches'])]
    return SuperNetModule(branches, gumbel_softmax=n.get('gumbel', False),
                          hard_softmax=n.get('hard', False))


def winner_factory(winners: Dict[str, int]):
    """Reference builder: every choice block is replaced by its winning branch (same weights)."""
    def f(n, in_shape, wseed):
        cin = in_shape[0]
        fam = '1d' if len(in_shape) == 2 else '2d'
        i = winners[n['id']]
        return make_branch(n['branches'][i], cin, n['cout'], fam, wseed, f"{n['id']}.b{i}")
    return f


def combiners(sn) -> Dict[str, object]:
    """node id -> SuperNetCombiner."""
    from plinio.methods.supernet.nn.combiner import SuperNetCombiner
    out = {}
    for name, m in sn.seed.named_modules():
        if isinstance(m, SuperNetCombiner):
            out[name.split('.')[1]] = m
    return out


def set_winner_coefficients(sn, spec, winners: Dict[str, int], aseed: int):
    """Random coefficients with pairwise gaps >= 0.05 whose arg-max is the drawn winner."""
    import torch
    from .mpsutil import scores
    with torch.no_grad():
        for nid, comb in combiners(sn).items():
            v = scores(comb.n_branches, None, aseed, nid)
            w = winners[nid]
            top = int(torch.argmax(v))
            v[[w, top]] = v[[top, w]]
            if aseed % 2:
                comb.alpha.data.copy_(v)      # the other common way of writing a parameter
            else:
                comb.alpha.copy_(v)


# ----------------------------------------------------------------------------------------
# strategies
# ----------------------------------------------------------------------------------------
@st.composite
def branch(draw, allow_identity, functional_tail=True):
    kinds = ['conv', 'conv', 'seq', 'block', 'dwsep', 'grow'] + (
        ['identity'] if allow_identity else [])
    k = draw(st.sampled_from(kinds))
    if k == 'conv':
        return {'kind': 'conv', 'k': draw(st.sampled_from([1, 3, 5])), 'bias': draw(st.booleans())}
    if k == 'seq':
        return {'kind': 'seq', 'mid': draw(st.integers(1, 5)), 'k2': draw(st.sampled_from([1, 3])),
                'bias': draw(st.booleans())}
    if k == 'grow':
        return {'kind': 'grow', 'mid': draw(st.integers(1, 5)), 'bias': draw(st.booleans())}
    if k == 'block':
        tails = ['mod', 'none'] + (['func'] if functional_tail else [])
        return {'kind': 'block', 'mid': draw(st.integers(1, 5)), 'tail': draw(st.sampled_from(tails))}
    return {'kind': k}


@st.composite
def sn_specs(draw, max_sn=3, functional_tail=True, family=None, max_branches=12):
    fam = family or draw(st.sampled_from(['2d', '2d', '1d']))
    if fam == '2d':
        inp = [draw(st.integers(1, 3)), draw(st.integers(4, 7)), draw(st.integers(4, 7))]
    else:
        inp = [draw(st.integers(1, 3)), draw(st.integers(6, 12))]
    prof = ng.Profile(family=fam, pads=('same',), standalone_bn=False, exclude=False)
    b = ng._B(draw, prof, [inp])
    t = 'x'
    if draw(st.booleans()):
        t = b.conv(t, allow_dw=False, allow_stride=False, force_bn=draw(st.booleans()))
        t = b.maybe_act(t)
    n_sn = draw(st.integers(1, max_sn))
    for i in range(n_sn):
        C = b.shapes[t][0]
        keep = draw(st.booleans())
        cout = C if keep else draw(st.integers(1, 5))
        nb = draw(st.sampled_from([2, 2, 3, 3, 4, 5, 12][:7 if max_branches >= 12 else 6]))
        brs = []
        for j in range(nb):
            br = draw(branch(allow_identity=(cout == C), functional_tail=functional_tail))
            if br['kind'] == 'identity' and any(x['kind'] == 'identity' for x in brs):
                br = {'kind': 'conv', 'k': 1, 'bias': True}
            brs.append(br)
        sn = b.add('snmodule', [t], cout=cout, branches=brs,
                   gumbel=draw(st.integers(0, 3)) == 0, hard=False)
        wrap = draw(st.sampled_from(['plain', 'plain', 'residual', 'twice', 'act']))
        if wrap == 'residual' and cout == C:
            t = b.add('add', [t, sn], variant='op')
        elif wrap == 'twice' and cout == C:
            m = b.maybe_act(sn)
            t = b.add('reuse', [m], of=sn)
        elif wrap == 'act':
            t = b.act(sn)
        else:
            t = sn
        if draw(st.integers(0, 2)) == 0:
            t = b.conv(t, allow_dw=False, allow_stride=False)
    tail = draw(st.sampled_from(['none', 'linear', 'conv']))
    if tail == 'linear':
        t = b.add('gap', [t])
        t = b.add('flatten', [t], variant='mod')
        t = b.add('linear', [t], cout=draw(st.integers(1, 4)), bias=True, bn=False)
    elif tail == 'conv':
        t = b.conv(t, allow_dw=False, allow_stride=False)
    return {'family': fam, 'inputs': [inp], 'nodes': b.nodes, 'out': t}


def sn_nodes(spec) -> List[dict]:
    return [n for n in spec['nodes'] if n['op'] == 'snmodule']


@st.composite
def winners_for(draw, spec):
    return {n['id']: draw(st.integers(0, len(n['branches']) - 1)) for n in sn_nodes(spec)}


def build_sn(spec, wseed, **kw):
    from plinio.methods import SuperNet
    net = ng.build(spec, wseed, sn_factory=sn_factory)
    x = ng.make_input(spec, 0)
    sn = SuperNet(net, input_example=x, **kw)
    return net, sn, x
