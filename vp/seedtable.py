"""Regenerates the table of seeded changes in DESIGN.md (between the SEEDED-TABLE markers) from
seeded/*/meta.json.   python -m vp.seedtable"""
import glob
import json
import os
import re

ROOT = os.path.dirname(os.path.dirname(os.path.abspath(__file__)))


def main():
    rows = []
    for mp in sorted(glob.glob(os.path.join(ROOT, 'seeded', '*', 'meta.json'))):
        name = os.path.basename(os.path.dirname(mp))
        m = json.load(open(mp))
        w = m['what_was_run']
        caught = []
        for p, tiers in w['checks'].items():
            for t, r in tiers.items():
                if r['exit'] == 1:
                    b = (r['buckets'][0].split('bucket=')[-1] if r['buckets'] else '')
                    caught.append(f"{p} {t} ({r['wall_s']:.0f} s): `{b[:70]}`")
        base = w.get('baseline_stable_tests_missing_after_change')
        rows.append(f"| {name} | {m['needs_to_manifest']} | demo {w['demo_exit_unchanged']}/"
                    f"{w['demo_exit_changed']}, suite "
                    f"{'132/132' if base == [] else 'missing ' + str(base)} | "
                    f"{'; '.join(caught) or '**missed**'} | {m.get('history', '')} |")
    table = ("| change | what it needs to manifest | demo exit (unchanged/changed), baseline suite "
             "on the changed tree | caught by | notes |\n|---|---|---|---|---|\n" + "\n".join(rows))
    p = os.path.join(ROOT, 'DESIGN.md')
    s = open(p).read()
    s = re.sub(r'(<!-- SEEDED-TABLE -->\n).*?(\n<!-- /SEEDED-TABLE -->)',
               lambda mm: mm.group(1) + table + mm.group(2), s, flags=re.S)
    open(p, 'w').write(s)
    print(len(rows), 'rows')


if __name__ == '__main__':
    main()
