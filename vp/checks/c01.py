"""C01 - PIT export computes the same function as the masked (searched) network."""
from __future__ import annotations

from hypothesis import strategies as st

from .. import masks as mk
from .. import netgen as ng
from .. import pitutil as pu
from ..core import Check, Part, Result, must

TOL = 1e-4


def profile(family, big=False):
    if family == '1d':
        return ng.Profile(family='1d', pads=('causal', 'causal', 'causal', 'none'),
                          standalone_bn=False, exclude=True, reuse=False, multi_input=True, fixtures=True,
                          max_blocks=6 if big else 4, kmax=12 if big else 9, min_blocks=2)
    return ng.Profile(family='2d', standalone_bn=False, exclude=True, reuse=False,
                      multi_input=True, fixtures=True, max_blocks=6 if big else 4, min_blocks=2, bridge=True,
                      pads=('causal', 'causal', 'none'))


@st.composite
def cases(draw, big=False):
    fam = draw(st.sampled_from(['1d', '1d', '2d']))
    spec = draw(ng.netspecs(profile(fam, big)))
    fixed = pu.fixed_ids(spec)
    masks = draw(mk.pit_masks(spec, fixed))
    return {'spec': spec, 'masks': masks, 'fold_bn': draw(st.booleans()),
            'wseed': draw(st.integers(0, 50)), 'xseed': draw(st.integers(0, 50)),
            'vseed': draw(st.integers(0, 50)),
            'xscale': draw(st.sampled_from([0.1, 1.0, 10.0]))}


def expected_conv1d(node, nb, t):
    K, d0 = node['k'], node['dil']
    tm = mk.ref_time_mask(K, nb, t)
    k_opt = sum(tm)
    d_opt = (2 ** t) * d0
    return tm, k_opt, d_opt, (k_opt - 1) * d_opt


def oracle(case) -> Result:
    import torch
    res = Result()
    spec = case['spec']
    fixed = pu.fixed_ids(spec)
    masks = case['masks']
    net, pit, x0 = pu.build_pit(spec, case['wseed'], fold_bn=case['fold_bn'])
    mk.apply_pit_masks(pit, spec, masks, case['vseed'], fixed)
    pit.eval()
    layers = pu.pit_layers(pit)
    alive, in_alive = ng.alive_masks(spec, masks['g'], fixed)

    # shared-mask groups: every converted layer reports the pattern of its reference group
    for nid, layer in layers.items():
        got = [bool(v) for v in layer.features_mask.tolist()]
        if got != alive[nid]:
            res.bad('feature-mask-differs-from-group-pattern', layer=nid, got=got, want=alive[nid])
    if res.discrepancies:
        return res

    x = ng.make_input(spec, case['xseed'], batch=2, scale=case['xscale'])
    with torch.no_grad():
        y_pit = must(res, 'pit-forward', ng.call, pit, x)
    exported = must(res, 'export', pit.export)
    if y_pit is None or exported is None:
        return res
    exported.eval()
    pu.transplant_bn(pit, exported)
    with torch.no_grad():
        y_exp = must(res, 'exported-forward', ng.call, exported, x)
    if y_exp is None:
        return res
    if tuple(y_exp.shape) != tuple(y_pit.shape):
        res.bad('output-shape', pit=list(y_pit.shape), exported=list(y_exp.shape))
    else:
        err = float((y_pit - y_exp).abs().max())
        scale = 1.0 + float(y_pit.abs().max())
        res.obs['max_abs_err'] = err
        res.obs['out_absmax'] = scale - 1.0
        if not (err <= TOL * scale):
            res.bad('output-mismatch', max_abs_err=err, out_absmax=scale - 1.0)

    # structure of the exported layers == summary() == reference derived from the drawn pattern
    summ = pit.summary()
    for n in spec['nodes']:
        nid = n['id']
        if nid not in layers or n['op'] == 'reuse':
            continue
        name = f"layers.{nid}"
        em = exported.get_submodule(name)
        s = summ[name]
        want_out = sum(alive[nid])
        want_in = sum(in_alive[nid])
        if n['op'] == 'linear':
            got = (em.in_features, em.out_features)
        else:
            got = (em.in_channels, em.out_channels)
            if ng.is_dw(n) and em.groups != want_out:
                res.bad('exported-dw-groups', layer=nid, groups=em.groups, want=want_out)
        if got != (want_in, want_out) or (s['in_features'], s['out_features']) != got:
            res.bad('exported-width', layer=nid, exported=got, summary=[s['in_features'],
                    s['out_features']], reference=[want_in, want_out])
        if n['op'] == 'conv1d':
            nb, t = masks['t'].get(nid, [0, 0])
            tm, k_opt, d_opt, pad = expected_conv1d(n, nb, t)
            got_tm = [bool(v) for v in layers[nid].time_mask.tolist()]
            if got_tm != tm:
                res.bad('time-mask-differs-from-reference', layer=nid, K=n['k'], nb=nb, t=t,
                        got=got_tm, want=tm)
            gk, gd = tuple(em.kernel_size), tuple(em.dilation)
            if gk != (k_opt,) or tuple(s['kernel_size']) != gk:
                res.bad('exported-kernel-size', layer=nid, exported=gk, summary=s['kernel_size'],
                        reference=k_opt)
            if k_opt > 1 and (gd != (d_opt,) or tuple(s['dilation']) != gd):
                res.bad('exported-dilation', layer=nid, exported=gd, summary=s['dilation'],
                        reference=d_opt)
            if n['pad'] in ('causal', 'none'):
                # the padding in front of the exported layer: the (rewritten) ConstantPad1d the
                # export places / keeps there; no such module = nothing is padded
                try:
                    got_pad = tuple(exported.get_submodule(name + '_pad').padding)
                except AttributeError:
                    got_pad = (0, 0)
                want_pad = (k_opt - 1) * gd[0]
                if got_pad != (want_pad, 0):
                    res.bad('exported-padding', layer=nid, got=list(got_pad), want=want_pad)

    pr = mk.n_pruned(spec, masks, fixed)
    varied = bool(y_pit.numel() > 1 and float(y_pit.std()) > 1e-7)
    res.nontrivial = (pr['features'] + pr['taps'] > 0) and varied
    res.ev(*ng.spec_features(spec))
    res.ev('fold_bn' if case['fold_bn'] else 'fused_bn')
    if pr['features']:
        res.ev('pruned:features')
    if pr['taps']:
        res.ev('pruned:taps')
    if any(sum(p[:-1]) == 0 and len(p) > 1 for p in masks['g'].values()):
        res.ev('group-pruned-to-keepalive')
    if not varied:
        res.ev('constant-output')
    res.obs['pruned'] = pr
    return res


# -- exhaustive time-mask sweep --------------------------------------------------------
def enum_tcn(tier):
    kmax = 9 if tier == 'quick' else 12
    for K in range(1, kmax + 1):
        for d0 in (1, 2, 3):
            for nb in range(K):
                for t in range(mk.gamma_len(K)):
                    for two in (False, True):
                        # d0 > 1 and the two-layer variant only for part of the grid in quick
                        if tier == 'quick' and two and d0 != 1:
                            continue
                        nodes = [{'id': 'n0', 'op': 'conv1d', 'in': ['x'], 'k': K, 'dil': d0,
                                  'stride': 1, 'pad': 'causal', 'cout': 3, 'bias': True, 'bn': False,
                                  'groups': 1},
                                 {'id': 'n1', 'op': 'relu', 'in': ['n0'], 'variant': 'mod'}]
                        tm = {'n0': [nb, t]}
                        last = 'n1'
                        if two:
                            nodes.append({'id': 'n2', 'op': 'conv1d', 'in': ['n1'], 'k': K,
                                          'dil': 1, 'stride': 1, 'pad': 'causal', 'cout': 2,
                                          'bias': False, 'bn': True, 'groups': 1})
                            tm['n2'] = [(nb + 1) % K, (t + 1) % mk.gamma_len(K)]
                            last = 'n2'
                        nodes.append({'id': f'n{len(nodes)}', 'op': 'conv1d', 'in': [last], 'k': 1,
                                      'dil': 1, 'stride': 1, 'pad': 'none', 'cout': 2, 'bias': True,
                                      'bn': False, 'groups': 1})
                        spec = {'family': '1d', 'inputs': [[2, 2 * K + 3]], 'nodes': nodes,
                                'out': nodes[-1]['id']}
                        for fmask in ([True, True, True], [False, True, True]):
                            g = {'n0': fmask}
                            if two:
                                g['n2'] = [True, True] if fmask[0] else [False, True]
                            yield {'spec': spec, 'masks': {'g': g, 't': tm}, 'fold_bn': False,
                                   'wseed': K, 'xseed': d0, 'vseed': nb + 7 * t, 'xscale': 1.0}


CHECK = Check(
    prop='C01',
    parts=[
        Part('tcn-time-masks', oracle, enumerate=enum_tcn, enum_parallel=True,
             shards={'quick': 1, 'thorough': 16},
             exhaustive_note='every reachable binarised time mask (prefix-pruned x comb step) for '
                             'K=1..9 (thorough: 1..12), d0 in 1..3, one- and two-layer causal TCNs, '
                             'two channel masks'),
        Part('nets', oracle, strategy=cases(),
             budget={'quick': 250, 'thorough': 1200}, shards={'quick': 1, 'thorough': 16}),
        Part('nets-big', oracle, strategy=cases(big=True),
             budget={'quick': 0, 'thorough': 300}, shards={'quick': 1, 'thorough': 16}),
    ],
    rule=("Generated 1-D/2-D networks from the NetSpec grammar (causal-padded Conv1d, Conv2d, "
          "depthwise, Linear, fused BN, ReLU/ReLU6/dropout/identity, pooling, flatten/squeeze, "
          "residual add, channel/time concat, excluded layers, two-input nets) with a drawn "
          "alive/dead pattern per reference width group and a drawn (prefix, comb-step) time mask "
          "per stride-1 Conv1d, realised as random real parameter values with random signs; "
          "fold_bn on/off; inputs N(0,1) x {0.1,1,10}. Non-trivial = at least one non-frozen "
          "feature or one tap pruned AND the PIT output is not constant; distinct by hash of the "
          "whole case."),
    assumptions=[
        "exported BatchNorms receive the statistics/affine of the BN they replace, sliced by the "
        "layer's binarised feature mask (the proviso in the property)",
        "tolerance max|diff| <= 1e-4*(1+max|y|) (float32 re-association after channel removal)",
        "receptive-field/dilation pruning only on causally padded Conv1d (README limitation); "
        "stand-alone BatchNorm and cat(t, t) of one tensor with itself are outside the grammar",
        "mask parameter values are kept >= 0.05 away from the 0.5 threshold",
    ],
)
