"""C04 - PIT discrete cost equals the real cost of the network that export would produce."""
from __future__ import annotations

from hypothesis import strategies as st

from .. import masks as mk
from .. import netgen as ng
from .. import pitutil as pu
from .. import refcost
from ..core import Check, Part, Result, must

REL = 1e-4
METRICS_1D = ['params', 'params_no_bias', 'ops', 'ops_no_bias']
METRICS_2D = METRICS_1D + ['gap8_latency']


def profile(family, big=False):
    if family == '1d':
        return ng.Profile(family='1d', pads=('causal', 'causal', 'same', 'none'),
                          standalone_bn=False, exclude=True, reuse=True, multi_input=True, fixtures=True,
                          max_blocks=6 if big else 4, kmax=12 if big else 9, min_blocks=2)
    return ng.Profile(family='2d', standalone_bn=False, exclude=True, reuse=True,
                      multi_input=True, fixtures=True, max_blocks=6 if big else 4, min_blocks=2, bridge=True,
                      pads=('causal', 'same', 'none'))


@st.composite
def cases(draw, big=False):
    fam = draw(st.sampled_from(['1d', '2d']))
    spec = draw(ng.netspecs(profile(fam, big)))
    fixed = pu.fixed_ids(spec)
    masks = draw(mk.pit_masks(spec, fixed))
    pool = METRICS_1D if fam == '1d' else METRICS_2D
    costs = draw(st.lists(st.sampled_from(pool), min_size=1, max_size=3, unique=True))
    as_dict = len(costs) > 1 or draw(st.booleans())
    return {'spec': spec, 'masks': masks, 'fold_bn': draw(st.booleans()),
            'wseed': draw(st.integers(0, 50)), 'vseed': draw(st.integers(0, 50)),
            'costs': costs, 'dict': as_dict, 'full_cost': draw(st.booleans()),
            'reassign_spec': draw(st.booleans()),
            # the architecture is frozen after the search (fine-tuning phase) before the cost is read
            'freeze': draw(st.sampled_from([None, None, 'train_net_only', 'train_features']))}


def _spec_obj(name):
    import plinio.cost as pc
    return getattr(pc, name)


def _close(a, b):
    return abs(a - b) <= REL * max(1.0, abs(a), abs(b))


def ref_metric(metric, exported, x, names, static_layers):
    """Reference value of `metric` on the exported network restricted to layer `names`."""
    import torch
    m = refcost.measure(exported, x, names)
    if metric != 'gap8_latency':
        return float(m[metric]), m
    cs = _spec_obj('gap8_latency')
    tot = 0.0
    for name, r in m['layers'].items():
        em = exported.get_submodule(name)
        # dispatch on the ORIGINAL layer's static description (as the library does), evaluate on
        # the exported layer's actual hyper-parameters and output shape
        fn = cs[(type(em), static_layers[name])]
        v = dict(vars(em))
        for k in ('in_channels', 'out_channels', 'in_features', 'out_features'):
            if k in v:
                v[k] = torch.tensor(float(v[k]))
        if not r['calls']:
            continue
        v['output_shape'] = r['calls'][0]
        tot += float(fn(v))
    return tot, m


def oracle(case) -> Result:
    import torch
    import torch.nn as nn
    res = Result()
    spec = case['spec']
    fixed = pu.fixed_ids(spec)
    masks = case['masks']
    names = case['costs']
    cost = {n: _spec_obj(n) for n in names} if case['dict'] else _spec_obj(names[0])
    net, pit, x0 = pu.build_pit(spec, case['wseed'], fold_bn=case['fold_bn'], cost=cost,
                                discrete_cost=False, full_cost=case['full_cost'])
    pit.eval()
    layers = pu.pit_layers(pit)
    searchable = {f"layers.{nid}" for nid in layers}
    counted = set(searchable)
    if case['full_cost']:
        counted |= {f"layers.{n['id']}" for n in spec['nodes'] if n.get('excl')}
    # static description of every original conv/linear layer (for pattern dispatch of gap8)
    static_layers = {}
    for name, m in net.named_modules():
        if type(m) in (nn.Conv1d, nn.Conv2d, nn.Linear):
            static_layers[name] = dict(vars(m))

    def get(name):
        c = pit.get_cost(name) if case['dict'] else pit.cost
        return float(c)

    # clause 2: before any pruning continuous == discrete == cost of the original model
    exp0 = must(res, 'export-initial', pit.export)
    if exp0 is None:
        return res
    exp0.eval()
    for name in names:
        pit.discrete_cost = False
        c_cont = must(res, 'cost', get, name)
        pit.discrete_cost = True
        c_disc = must(res, 'cost', get, name)
        if c_cont is None or c_disc is None:
            return res
        r0 = must(res, 'exported-forward', ref_metric, name, exp0, x0, counted, static_layers)
        if r0 is None:
            return res
        ref0 = r0[0]
        if not (_close(c_cont, ref0) and _close(c_disc, ref0)):
            res.bad('initial-cost-differs-from-original', metric=name, continuous=c_cont,
                    discrete=c_disc, reference=ref0)
        if not case['fold_bn'] and name != 'gap8_latency':
            ref_user = float(refcost.measure(net, x0, counted)[name])
            if not _close(ref0, ref_user):
                res.bad('initial-export-cost-differs-from-user-model', metric=name, exported=ref0,
                        user_model=ref_user)

    # clause 1: discrete cost of the pruned architecture == metric of the exported network
    mk.apply_pit_masks(pit, spec, masks, case['vseed'], fixed)
    if case.get('reassign_spec'):
        # the (same) cost specification assigned again on the pruned model - as done when a
        # metric is added or swapped in the middle of a search - must not change any value
        must(res, 'cost_specification-setter', setattr, pit, 'cost_specification',
             {n: _spec_obj(n) for n in names} if case['dict'] else _spec_obj(names[0]))
    if case.get('freeze') == 'train_net_only':
        must(res, 'train_net_only', pit.train_net_only)
    elif case.get('freeze') == 'train_features':
        must(res, 'train_features-setter', setattr, pit, 'train_features', False)
    pit.discrete_cost = True
    exported = must(res, 'export', pit.export)
    if exported is None:
        return res
    exported.eval()
    obs = {}
    changed = False
    for name in names:
        c = must(res, 'cost', get, name)
        if c is None:
            continue
        if name == 'gap8_latency':
            # pattern dispatch may legitimately change when a generic conv is pruned to 1->1
            # (DESIGN 6.10): the library keeps the function selected for the original layer
            pass
        r1 = must(res, 'exported-forward', ref_metric, name, exported, x0, counted, static_layers)
        if r1 is None:
            continue
        ref = r1[0]
        obs[name] = {'pit': c, 'reference': ref}
        ref0, _ = ref_metric(name, exp0, x0, counted, static_layers)
        changed = changed or not _close(ref, ref0)
        if not _close(c, ref):
            res.bad('discrete-cost-differs-from-exported-network', metric=name, pit=c,
                    reference=ref, full_cost=case['full_cost'])
    res.obs = obs
    pr = mk.n_pruned(spec, masks, fixed)
    res.nontrivial = (pr['features'] + pr['taps'] > 0) and changed
    res.ev(*ng.spec_features(spec))
    res.ev(*[f"metric:{n}" for n in names])
    res.ev('full_cost' if case['full_cost'] else 'nas_cost', 'dict-spec' if case['dict'] else
           'single-spec', 'fold_bn' if case['fold_bn'] else 'fused_bn')
    if pr['features']:
        res.ev('pruned:features')
    if pr['taps']:
        res.ev('pruned:taps')
    return res


CHECK = Check(
    prop='C04',
    parts=[
        Part('nets', oracle, strategy=cases(),
             budget={'quick': 250, 'thorough': 1200}, shards={'quick': 1, 'thorough': 16}),
        Part('nets-big', oracle, strategy=cases(big=True),
             budget={'quick': 0, 'thorough': 300}, shards={'quick': 1, 'thorough': 16}),
    ],
    rule=("Generated 1-D/2-D NetSpec networks (C01 grammar plus same-padded Conv1d and layers "
          "applied twice) with drawn feature/time mask patterns; cost spec = 1..3 of {params, "
          "params_no_bias, ops, ops_no_bias, gap8_latency(2-D)} as single spec or dictionary; "
          "full_cost and fold_bn on/off. Oracle: from-scratch counter on the exported network "
          "(actual numel() of exported tensors; MACs from forward-hook output shapes per call "
          "site); gap8 = the registered function evaluated on the exported layers. Non-trivial = "
          "something pruned AND the reference cost differs from the unpruned cost; distinct by "
          "case hash."),
    assumptions=[
        "relative tolerance 1e-4 (float32 sums of integers)",
        "gap8: the function is dispatched on the original layer description, as the library does "
        "(a generic conv pruned to 1->1 keeps the generic formula)",
        "a layer object applied twice is generated only inside one width group (PIT has one "
        "input-features calculator per layer object)",
    ],
)
