"""C05 - MPS cost equals the exact bit-cost of the selected precision assignment."""
from __future__ import annotations

import math

from hypothesis import strategies as st

from .. import mpsutil as mu
from .. import netgen as ng
from ..core import Check, Part, Result, must

REL = 1e-4
METRICS = ['params_bit', 'ops_bit', 'mpic_latency', 'ne16_latency', 'probe']


@st.composite
def cases(draw, big=False):
    fam = draw(st.sampled_from(['2d', '2d', '2d', '1d']))
    # NE16 has no Conv1d model
    metrics = METRICS if fam == '2d' else [m for m in METRICS if m != 'ne16_latency']
    costs = draw(st.lists(st.sampled_from(metrics), min_size=1, max_size=3, unique=True))
    ne16 = 'ne16_latency' in costs
    prof = mu.profile(big, family=fam)
    if ne16:
        prof.two_d_k = (1, 3)
    spec = mu.fix_tail(draw(ng.netspecs(prof)))
    if ne16:
        shapes = ng.infer_shapes(spec)
        for n in spec['nodes']:
            one_to_one = n['op'] == 'conv2d' and n['cout'] == 1 and shapes[n['in'][0]][0] == 1
            if (ng.is_dw(n) or one_to_one) and n['k'] == 1:
                # NE16 supports only 3x3 depthwise; a 1->1 conv matches the depthwise pattern
                n['k'], n['p'] = 3, 1          # (same output shape)
    per_channel = draw(st.booleans())
    zero_bit = per_channel and draw(st.booleans())
    w_prec = draw(mu.precisions)
    if zero_bit:
        w_prec = [0] + w_prec if draw(st.booleans()) else w_prec + [0]
    a_prec = [8] if ne16 else draw(mu.precisions)
    t = draw(st.one_of(st.floats(min_value=math.log(0.05), max_value=math.log(20.0)),
                      st.sampled_from([math.log(0.05), math.log(0.05), math.log(20.0)])))  # + the ends
    return {'spec': spec, 'w_prec': w_prec, 'a_prec': a_prec, 'per_channel': per_channel,
            'costs': costs, 'dict': len(costs) > 1 or draw(st.booleans()),
            'mode': draw(st.sampled_from(['eval', 'eval', 'train-hard'])),
            'wseed': draw(st.integers(0, 50)), 'aseed': draw(st.integers(0, 200)),
            'temperature': round(math.exp(t), 4),
            # Gumbel sampling configured (it must not matter in eval mode)
            'gumbel': draw(st.booleans()),
            # another assignment was evaluated (eval forward + cost read) before this one
            'prior': draw(st.booleans()),
            # export() is called (and its result dropped) before the cost is evaluated
            'export_first': draw(st.booleans()),
            # the network is handed over in training mode (the default state of a new module)
            'wrap_train': draw(st.booleans())}


def mps_alive(spec, summ, res):
    """Reference alive-feature propagation for MPS: a channel is dead iff its selected weight
    precision is 0 bit."""
    shapes = ng.infer_shapes(spec)
    alive = {'x': [True] * shapes['x'][0]}
    in_alive = {}
    for n in spec['nodes']:
        nid = n['id']
        a = [alive[i] for i in n['in']]
        in_alive[nid] = a[0]
        op = n['op']
        if op in ng.LAYER_OPS:
            wp = summ[f"layers.{nid}"]['w_precision']
            own = [p != 0 for p in wp] if isinstance(wp, list) else [True] * shapes[nid][0]
            if ng.is_dw(n) and own != a[0] and isinstance(wp, list) and not all(a[0]):
                res.bad('depthwise-pruned-channels-differ-from-producer', layer=nid)
            alive[nid] = own
        elif op == 'add':
            if any(m != a[0] for m in a):
                res.bad('pruned-channels-differ-across-add', node=nid)
            alive[nid] = list(a[0])
        elif op == 'flatten':
            mult = math.prod(shapes[n['in'][0]][1:])
            alive[nid] = [b for b in a[0] for _ in range(mult)]
        else:
            alive[nid] = list(a[0])
    return alive, in_alive


def _bits(wp, cout):
    return list(wp) if isinstance(wp, list) else [wp] * cout


def oracle(case) -> Result:
    import torch
    import torch.nn as nn
    import plinio.cost as pc
    from plinio.cost import CostSpec
    res = Result()
    spec = case['spec']
    shapes = ng.infer_shapes(spec)

    shown = []   # what the probing cost functions are shown

    def probe_fn(s):
        shown.append(s)
        return torch.tensor(1.0)
    probe = CostSpec(shared=True, default_behavior='zero')
    probe[(nn.Conv2d, None)] = probe_fn
    probe[(nn.Conv1d, None)] = probe_fn
    probe[(nn.Linear, None)] = probe_fn

    def spec_obj(name):
        return probe if name == 'probe' else getattr(pc, name)
    names = case['costs']
    cost = {n: spec_obj(n) for n in names} if case['dict'] else spec_obj(names[0])
    mps, x0 = mu.build_mps(spec, case['wseed'], case['w_prec'], case['a_prec'],
                           per_channel=case['per_channel'], cost=cost,
                           temperature=case['temperature'],
                           hard_softmax=(case['mode'] == 'train-hard'),
                           gumbel_softmax=bool(case.get('gumbel')) and case['mode'] == 'eval',
                           wrap_train=bool(case.get('wrap_train')))
    if case.get('prior'):
        mu.earlier_assignment(mps, x0, case['aseed'])
        res.ev('earlier-assignment-evaluated-first')
    mu.set_coefficients(mps, case['aseed'])
    if (case['mode'] == 'eval') == mps.training:
        mps.train(case['mode'] != 'eval')   # (no mode call when the model already is in that mode)
    if case.get('export_first'):
        try:
            mps.export()          # an observer; whether it succeeds is the business of C02 / C10
            res.ev('exported-before-the-cost-was-read')
        except Exception:  # noqa
            res.ev('export-raised-before-the-cost-was-read')
    with torch.no_grad():
        if must(res, 'mps-forward', mps, x0) is None:
            return res
    summ = mps.summary()
    if any(v.get('in_precision') == -1 for v in summ.values()):
        # a layer fed by an un-quantized (float) tensor: 'input bits' are undefined there, the
        # exact bit-cost the property speaks of does not exist (see DESIGN 6.12)
        res.discarded = 'layer-with-float-input'
        return res
    if 'ne16_latency' in case['costs'] and any(
            n['op'] == 'conv2d' and not ng.is_dw(n) and n['cout'] == 1 and n['k'] == 1 and
            shapes[n['in'][0]][0] == 1 for n in spec['nodes']):
        # a 1->1 1x1 convolution matches the depthwise pattern, which NE16 restricts to 3x3
        res.discarded = 'ne16-rejects-1to1-1x1-conv'
        return res
    alive, in_alive = mps_alive(spec, summ, res)
    batch = x0.shape[0]

    # per-layer exact description
    layers = {}
    for n in spec['nodes']:
        if n['op'] not in ng.LAYER_OPS:
            continue
        nid = n['id']
        name = f"layers.{nid}"
        s = summ[name]
        cout = shapes[nid][0]
        bits = _bits(s['w_precision'], cout)
        k = (n['k'], n['k']) if n['op'] == 'conv2d' else (n['k'],) if n['op'] == 'conv1d' else ()
        layers[nid] = dict(node=n, name=name, bits=bits, in_bits=s['in_precision'],
                           n_in=sum(in_alive[nid]), n_out=sum(1 for b in bits if b != 0),
                           kprod=math.prod(k) if k else 1,
                           positions=math.prod(shapes[nid][1:]) if n['op'] in ng.CONV_OPS else 1,
                           mod=mps.seed.get_submodule(name))
    n0_total = sum(len(L['bits']) - L['n_out'] for L in layers.values())

    def exact(metric):
        """(exact value, value under finding-D7's model)"""
        tot = tot_d7 = 0.0
        for nid, L in layers.items():
            n = L['node']
            C = len(L['bits'])
            sum_bits = sum(L['bits'])
            if metric in ('params_bit', 'ops_bit'):
                per_bit = L['kprod'] * (1 if ng.is_dw(n) else L['n_in'])
                v = per_bit * sum_bits
                if metric == 'ops_bit':
                    v *= L['in_bits'] * L['positions']
            else:
                cs = getattr(pc, metric)
                m = L['mod']
                typ = {'conv2d': nn.Conv2d, 'conv1d': nn.Conv1d, 'linear': nn.Linear}[n['op']]
                fn = cs[(typ, vars(m))]
                v = 0.0
                for p in sorted(set(L['bits'])):
                    npc = sum(1 for b in L['bits'] if b == p)
                    sp = dict(vars(m))
                    io = ('in_features', 'out_features') if typ is nn.Linear else (
                        'in_channels', 'out_channels')
                    # a depthwise layer's channels at precision p form a depthwise layer of npc
                    # channels (one input channel per output channel), not of all input channels
                    sp[io[0]] = torch.tensor(float(npc if ng.is_dw(n) else L['n_in']))
                    sp[io[1]] = torch.tensor(float(npc))
                    sp['output_shape'] = (batch,) + tuple(shapes[nid])
                    sp['in_precision'] = torch.tensor(float(L['in_bits']))
                    sp['w_precision'] = torch.tensor(float(p))
                    sp['w_theta_alpha'] = torch.tensor(1.0)
                    sp['in_format'] = int
                    sp['w_format'] = int
                    v += float(fn(sp))
            tot += v
            tot_d7 += v * (L['n_out'] / C)
        return tot, tot_d7

    def get(name):
        c = mps.get_cost(name) if case['dict'] else mps.cost
        return float(c)

    obs = {}
    for name in names:
        shown.clear()
        c = must(res, 'cost', get, name)
        if c is None:
            continue
        if name == 'probe':
            # the probing function returns 1 whatever it is shown: under a one-hot assignment the
            # coefficients of every decision sum to one over the options that are evaluated, so
            # the metric is the number of layers (an option left out of the sum shows up here)
            if abs(c - len(layers)) > 1e-4 * max(1, len(layers)):
                res.bad('probe-cost-is-not-one-per-layer', mps=c, layers=len(layers),
                        per_channel=case['per_channel'], pruned_channels=n0_total,
                        mode=case['mode'])
            # what is each layer's cost function shown?
            for nid, L in layers.items():
                m = L['mod']
                mine = [s for s in shown if s['_parameters']['weight'] is m.weight]
                if not mine:
                    res.bad('probe-layer-not-costed', layer=nid)
                    continue
                lin = L['node']['op'] == 'linear'
                keys = ('in_features', 'out_features') if lin else ('in_channels', 'out_channels')
                for s in mine:
                    got = (float(s[keys[0]]), float(s[keys[1]]))
                    want = (float(L['n_in']), float(L['n_out']))
                    if abs(got[0] - want[0]) > 1e-4 or abs(got[1] - want[1]) > 1e-4:
                        res.bad('cost-function-shown-wrong-feature-counts', layer=nid,
                                layer_kind=L['node']['op'], keys=list(keys), shown=list(got),
                                reference=list(want))
                        break
            continue
        if name in ('mpic_latency', 'ne16_latency') and case['per_channel'] and n0_total > 0:
            res.ev('hw-metric-with-pruning-not-compared')
            continue
        ex, d7 = exact(name)
        obs[name] = {'mps': c, 'exact': ex}
        if abs(c - ex) > REL * max(1.0, abs(ex)):
            res.bad('cost-differs-from-exact-bit-cost', metric=name, mps=c, exact=ex,
                    d7_model=d7, per_channel=case['per_channel'], pruned_channels=n0_total,
                    mode=case['mode'])
    res.obs = obs
    nonini = any(any(b != max(case['w_prec']) for b in L['bits']) for L in layers.values())
    res.nontrivial = nonini and bool(obs or 'probe' in names)
    res.ev(*ng.spec_features(spec))
    res.ev(*[f"metric:{n}" for n in names])
    res.ev('per-channel' if case['per_channel'] else 'per-layer', 'mode:' + case['mode'])
    if 0 in case['w_prec']:
        res.ev('zero-bit')
    if n0_total:
        res.ev('pruned-channels')
        if any(L['node']['op'] == 'linear' and L['n_in'] < len(in_alive[nid])
               for nid, L in layers.items()):
            res.ev('pruned-channel-upstream-of-linear')
    return res


def c05_double_discount(part, case, disc) -> bool:
    """Known finding D7: with the 0-bit option and n0 > 0 pruned channels the layer's own cost is
    scaled by (C - n0)/C (mean theta over all channels AND effective output channels)."""
    if disc.get('kind') != 'cost-differs-from-exact-bit-cost':
        return False
    if not disc.get('per_channel') or not disc.get('pruned_channels'):
        return False
    if 0 not in case.get('w_prec', []):
        return False
    mps, d7 = disc['mps'], disc['d7_model']
    return abs(mps - d7) <= 1e-4 * max(1.0, abs(d7))


CHECK = Check(
    prop='C05',
    parts=[
        Part('nets', oracle, strategy=cases(),
             budget={'quick': 250, 'thorough': 1000}, shards={'quick': 1, 'thorough': 16}),
        Part('nets-big', oracle, strategy=cases(big=True),
             budget={'quick': 0, 'thorough': 250}, shards={'quick': 1, 'thorough': 16}),
    ],
    rule=("Generated 2-D and (1 in 4) 1-D NetSpec networks (C02 grammar); per-layer search with any precision tuple "
          "from {2,4,8}, per-channel search without and with the 0-bit option; cost = 1..3 of "
          "{params_bit, ops_bit, mpic_latency, ne16_latency (8-bit activations, 1x1/3x3), probing "
          "spec} as single spec or dictionary; eval mode or training with hard (non-Gumbel) "
          "sampling; random coefficients with gaps >= 0.05, temperature in [0.05,20]. Oracle: exact "
          "bit-cost computed from summary() alone with a reference alive-feature propagation "
          "(0-bit channels dead); probing spec records the feature counts each cost function is "
          "shown. Non-trivial = selected weight assignment differs from the initial one; distinct "
          "by case hash."),
    assumptions=[
        "params_bit / ops_bit references are from-scratch formulas; mpic/ne16 references call the "
        "registered function once per precision group on exact integer specs (the hardware formula "
        "itself is C16's business) and are not compared when 0-bit pruning removed channels",
        "Gumbel sampling is excluded in training mode (the sampled one-hot is then random by design)",
        "relative tolerance 1e-4",
    ],
    classifiers={'c05_double_discount': c05_double_discount},
)
