"""Generates /verif/MANIFEST.json from the table below (python -m vp.manifest)."""
import json
import os

ROOT = os.path.dirname(os.path.dirname(os.path.abspath(__file__)))

BASELINE_OFF = ("cd /repo && env -u EML_EDA_PLINIO_VERIF /venv/bin/python -m pytest -ra -q "
                "-p no:cacheprovider --timeout=900 --continue-on-collection-errors")

# property -> (technique, level text, level note, design ref)
CHECKS = {
    'C15': ("exhaustive enumeration of registration orders + Hypothesis interleavings vs a "
            "reference model of the documented lookup rule",
            "Every ordered subset of the four pattern kinds x every spec x both defaults is "
            "enumerated (finite domain, complete), every built-in CostSpec is re-registered in "
            "every order, and Hypothesis interleaves registrations for several layer types; the "
            "oracle is an independent reference model of the README rule.",
            "Trusts the harness' reference model of the documented rule; each pattern registered "
            "at most once per type.",
            "DESIGN.md 4/C15"),
}

NOT_YET = "check not built yet in this session; planned with property-based testing per DESIGN.md section 4"


def build():
    props = [json.loads(l)['id'] for l in open(os.path.join(ROOT, 'properties.jsonl'))]
    checks = []
    for pid in props:
        if pid not in CHECKS:
            continue
        tech, text, note, ref = CHECKS[pid]
        checks.append({
            'property_id': pid,
            'quick_cmd': f"./check {pid} --tier quick",
            'thorough_cmd': f"./check {pid} --tier thorough",
            'evidence_file': f"evidence/{pid}.json",
            'replay_cmd_template': f"./check {pid} --replay {{path}}",
            'engine': 'vp',
            'level_claimed': {'category': 'exploration', 'text': text, 'design_ref': ref},
            'level_note': note,
            'technique': tech,
        })
    man = {
        'version': 1,
        'setup_cmd': ("/venv/bin/pip install -q --no-index --find-links /opt/veriftools/wheels "
                      "hypothesis jsonschema >/dev/null 2>&1; ./check --selftest"),
        'hooks': {
            'guard': 'EML_EDA_PLINIO_VERIF',
            'enable': ("no source hooks: plinio is pure Python and installed editable, every check "
                       "imports the working tree of /repo in a fresh process (./check sets "
                       "EML_EDA_PLINIO_VERIF=1 but no code in /repo reads it)"),
            'baseline_off_cmd': BASELINE_OFF,
            'source_commits': [],
            'add_only': True,
        },
        'engines': [{
            'name': 'vp', 'path': 'vp/',
            'serves_properties': [c['property_id'] for c in checks],
            'kind_free_text': ("property-based testing: Hypothesis strategies over a network / "
                               "configuration / history grammar with explicit oracles, "
                               "exhaustive enumeration of finite sub-domains, sharded over 16 "
                               "processes in the thorough tier"),
        }],
        'checks': checks,
        'not_applicable': [{'property_id': p, 'reason': NOT_YET} for p in props if p not in CHECKS],
        'notes': ("Genuine defects repaired in /repo are unguarded 'fix:' commits listed in "
                  "known_findings.json (status fixed); open findings are listed there with a "
                  "classifier and a witness replay."),
    }
    with open(os.path.join(ROOT, 'MANIFEST.json'), 'w') as f:
        json.dump(man, f, indent=1)
    return man


if __name__ == '__main__':
    m = build()
    print(f"{len(m['checks'])} checks, {len(m['not_applicable'])} not applicable")
