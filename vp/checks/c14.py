"""C14 - integer (MATCH / MAUPITI) layers reproduce their fake-quantized counterparts."""
from __future__ import annotations

import copy
import math

from hypothesis import strategies as st

from .. import mpsutil as mu
from .. import netgen as ng
from ..core import Check, Part, Result, must


# ----------------------------------------------------------------------------------------
# network / configuration generator (sequential and depthwise-separable 2-D networks)
# ----------------------------------------------------------------------------------------
@st.composite
def cases(draw, backend=None):
    backend = backend or draw(st.sampled_from(['match', 'match', 'maupiti']))
    C = draw(st.integers(1, 3))
    H, W = draw(st.integers(5, 8)), draw(st.integers(5, 8))
    nodes = []
    t = 'x'
    shapes = {'x': (C, H, W)}

    def add(node):
        nonlocal t
        nodes.append(node)
        spec = {'family': '2d', 'inputs': [[C, H, W]], 'nodes': nodes, 'out': node['id']}
        shapes.update(ng.infer_shapes(spec))
        t = node['id']
    n_conv = draw(st.integers(1, 3))
    for i in range(n_conv):
        cin = shapes[t][0]
        h, w = shapes[t][1:]
        kind = draw(st.sampled_from(['conv', 'conv', 'dw', 'dil'] if cin > 1 else
                                    ['conv', 'conv', 'dil']))
        bias = draw(st.booleans())
        bn = draw(st.integers(0, 2)) == 0
        nid = f"n{len(nodes)}"
        if kind == 'dw':
            add({'id': nid, 'op': 'conv2d', 'in': [t], 'k': 3, 'p': 1, 'stride': 1, 'cout': cin,
                 'bias': bias, 'bn': bn, 'groups': cin})
        elif kind == 'dil' and backend == 'match' and min(h, w) >= 5:
            axis = draw(st.integers(0, 1))
            k = draw(st.sampled_from([2, 3]))
            d = 2
            kk = [k, 1] if axis == 0 else [1, k]
            dd = [d, 1] if axis == 0 else [1, d]
            pad = draw(st.booleans())
            pp = [d * (k - 1) // 2 if pad else 0, 0] if axis == 0 else \
                [0, d * (k - 1) // 2 if pad else 0]
            add({'id': nid, 'op': 'conv2d', 'in': [t], 'k': kk, 'p': pp, 'dil': dd, 'stride': 1,
                 'cout': draw(st.integers(1, 5)), 'bias': bias, 'bn': bn, 'groups': 1})
        else:
            k = draw(st.sampled_from([1, 3]))
            stride = 2 if (min(h, w) >= 5 and draw(st.integers(0, 3)) == 0) else 1
            p = k // 2 if draw(st.integers(0, 3)) > 0 else 0
            if min(h, w) + 2 * p < k:
                p = k // 2
            add({'id': nid, 'op': 'conv2d', 'in': [t], 'k': k, 'p': p, 'stride': stride,
                 'cout': draw(st.integers(1, 5)), 'bias': bias, 'bn': bn, 'groups': 1})
        if draw(st.booleans()):
            add({'id': f"n{len(nodes)}", 'op': 'relu', 'in': [t],
                 'variant': draw(st.sampled_from(['mod', 'F', 'torch']))})
    tail = draw(st.sampled_from(['linear', 'linear', 'linear2', 'conv'] if backend == 'match'
                                else ['linear', 'linear2']))
    if tail == 'conv':
        add({'id': f"n{len(nodes)}", 'op': 'conv2d', 'in': [t], 'k': 1, 'p': 0, 'stride': 1,
             'cout': draw(st.integers(2, 4)), 'bias': draw(st.booleans()), 'bn': False, 'groups': 1})
    else:
        add({'id': f"n{len(nodes)}", 'op': 'flatten', 'in': [t], 'variant': 'mod'})
        if tail == 'linear2':
            add({'id': f"n{len(nodes)}", 'op': 'linear', 'in': [t], 'cout': draw(st.integers(2, 6)),
                 'bias': draw(st.booleans()), 'bn': draw(st.integers(0, 2)) == 0})
            if draw(st.booleans()):
                add({'id': f"n{len(nodes)}", 'op': 'relu', 'in': [t], 'variant': 'mod'})
        add({'id': f"n{len(nodes)}", 'op': 'linear', 'in': [t], 'cout': draw(st.integers(2, 4)),
             'bias': draw(st.booleans()), 'bn': False})
    spec = {'family': '2d', 'inputs': [[C, H, W]], 'nodes': nodes, 'out': t}
    mixed = draw(st.booleans())
    bits = st.sampled_from([2, 4, 8])
    w_prec = draw(st.lists(bits, min_size=2, max_size=3, unique=True)) if mixed else [draw(bits)]
    a_prec = draw(st.lists(bits, min_size=2, max_size=3, unique=True)) if mixed else [draw(bits)]
    kw = {}
    if backend == 'match' and draw(st.booleans()):
        kw = {'scale_bit': draw(st.sampled_from([16, 24])), 'shift_pos': draw(st.sampled_from([16, 24]))}
    return {'backend': backend, 'spec': spec, 'w_prec': w_prec, 'a_prec': a_prec, 'kwargs': kw,
            'wseed': draw(st.integers(0, 50)), 'aseed': draw(st.integers(0, 200)),
            'xseed': draw(st.integers(0, 50)),
            'bias_gain': draw(st.sampled_from([1, 1, 1, 8, 64]))}


# ----------------------------------------------------------------------------------------
# helpers
# ----------------------------------------------------------------------------------------
def calibrate(fq, x):
    """Sets every PACT clip value of a layer output to ~90% of the largest value it sees, layer
    by layer, so that several quantization levels are used whatever the bit-width."""
    import torch
    from plinio.methods.mps.quant.quantizers import PACTAct
    from plinio.methods.mps.quant.nn import QuantConv2d, QuantLinear
    layers = [m for m in fq.modules() if isinstance(m, (QuantConv2d, QuantLinear))]
    for m in layers:
        q = m.out_quantizer
        if not isinstance(q, PACTAct):
            continue
        seen = []

        def hook(mod, inp, _seen=seen):
            _seen.append(float(inp[0].detach().max()))     # (returns None: input untouched)
        h = q.register_forward_pre_hook(hook)
        with torch.no_grad():
            fq(x)
        h.remove()
        mx = max(seen) if seen else 1.0
        with torch.no_grad():
            # clip values comparable to the quantizer's 1e-3 stabiliser are outside the domain
            q.clip_val.fill_(max(0.3, 0.9 * mx))


def delta(q):
    """The grid step a PACT quantizer really uses."""
    return (float(q.clip_val.data[0]) + 1e-3) / (2 ** int(q.precision) - 1)


def oracle(case) -> Result:
    import torch
    import torch.nn.functional as F
    from plinio.methods.mps.quant.backends import Backend, integerize_arch
    from plinio.methods.mps.quant.quantizers import PACTAct, DummyQuantizer
    from plinio.methods.mps.quant.nn import QuantConv2d, QuantLinear
    res = Result()
    spec = case['spec']
    backend = case['backend']
    mps, x0 = mu.build_mps(spec, case['wseed'], case['w_prec'], case['a_prec'])
    mu.set_coefficients(mps, case['aseed'])
    mps.eval()
    x = mu.mps_input(spec, case['xseed'], batch=3)
    with torch.no_grad():
        mps(x)
    fq = must(res, 'mps-export', mps.export)
    if fq is None:
        return res
    fq.eval()
    gain = case.get('bias_gain', 1)
    if gain != 1:
        # large biases (as after folding a BatchNorm with non-trivial statistics): the integer
        # bias then needs most of its 32 bits and the shift search has to back off
        with torch.no_grad():
            for m in fq.modules():
                if isinstance(m, (QuantConv2d, QuantLinear)) and m.bias is not None:
                    m.bias.mul_(gain)
    calibrate(fq, x)
    with torch.no_grad():
        logits = fq(x)
    fq_ref = copy.deepcopy(fq)          # integerisation flips flags on shared quantizer objects
    be = Backend.MATCH if backend == 'match' else Backend.MAUPITI
    int_net = must(res, 'integerize_arch', integerize_arch, copy.deepcopy(fq), be,
                   backend_kwargs=dict(case['kwargs']))
    if int_net is None:
        return res
    int_net.eval()
    int_layers = {n: m for n, m in int_net.named_modules()
                  if type(m).__name__ in ('MATCHConv2d', 'MATCHLinear', 'MAUPITIConv2d',
                                          'MAUPITILinear')}
    fq_layers = {n: m for n, m in fq_ref.named_modules() if isinstance(m, (QuantConv2d, QuantLinear))}
    if set(int_layers) != set(fq_layers):
        res.bad('integer-network-layers-differ', integer=sorted(int_layers), fq=sorted(fq_layers))
        return res
    order = [n for n, _ in fq_ref.named_modules() if n in fq_layers]
    first = order[0]
    rec = {}
    hooks = [m.register_forward_hook(lambda mod, inp, out, _n=n: rec.__setitem__(
        _n, (inp[0].detach().double(), out.detach().double()))) for n, m in int_layers.items()]
    if backend == 'match':
        xin = x
    else:
        q0 = fq_layers[first].in_quantizer
        p0 = int(q0.precision)
        n0 = torch.floor(torch.clamp(x, 0, float(q0.clip_val.data[0])) / delta(q0))
        xin = n0 - 2 ** (p0 - 1)
    with torch.no_grad():
        out_int = must(res, 'integer-forward', int_net, xin)
    for h in hooks:
        h.remove()
    if out_int is None:
        return res
    worst = 0.0
    levels_used = 0
    sat_frac = 0.0
    for name in order:
        L, Fq = int_layers[name], fq_layers[name]
        xi, yi = rec[name]
        p_in, p_w = int(Fq.in_quantizer.precision), int(Fq.w_quantizer.precision)
        last = isinstance(Fq.out_quantizer, DummyQuantizer)
        off_in = 0 if backend == 'match' else 2 ** (p_in - 1)
        n = xi + off_in                                   # unsigned integer image of the input
        ctx = {'layer': name, 'backend': backend, 'p_in': p_in, 'p_w': p_w,
               'bias': Fq.bias is not None}
        # ---- ranges and integrality
        if not torch.equal(n, torch.round(n)) or n.min() < 0 or n.max() > 2 ** p_in - 1:
            res.bad('integer-layer-input-outside-declared-range', **ctx, min=float(n.min()),
                    max=float(n.max()))
            return res
        w = L.weight.detach().double()
        if not torch.equal(w, torch.round(w)) or w.min() < -2 ** (p_w - 1) or \
                w.max() > 2 ** (p_w - 1) - 1:
            res.bad('integer-weights-outside-signed-range', **ctx, min=float(w.min()),
                    max=float(w.max()))
        scale = L.scale.detach().double().flatten()
        shift = int(L.shift)
        sb = case['kwargs'].get('scale_bit', 24) if backend == 'match' else 16
        sp = case['kwargs'].get('shift_pos', 24) if backend == 'match' else 32
        if not torch.equal(scale, torch.round(scale)) or scale.min() < 1 or \
                scale.max() > 2 ** (sb - 1):
            res.bad('scale-outside-declared-range', **ctx, min=float(scale.min()),
                    max=float(scale.max()), scale_bit=sb)
        if not (0 <= shift < sp):
            res.bad('shift-outside-declared-range', **ctx, shift=shift, shift_pos=sp)
        # integer bias recomputed by the harness from the fq layer
        s_x = float(Fq.in_quantizer.scale)
        with torch.no_grad():
            Fq.w_quantizer(Fq.weight)                     # refresh the weight range
        s_w = Fq.w_quantizer.scale.detach().double().flatten()
        C = s_w.numel()
        if Fq.bias is not None:
            sbw = s_x * s_w
            raw_b = torch.where(sbw.abs() > 1e-8, Fq.bias.detach().double() / sbw,
                                torch.zeros_like(sbw))
            B = torch.round(raw_b)
            # channels whose integer bias is a rounding tie in float32 (the layer may hold B +- 1)
            b_tie = ((raw_b - torch.floor(raw_b)) - 0.5).abs() < 1e-3 * (1 + raw_b.abs() * 1e-4)
        else:
            B = torch.zeros(C, dtype=torch.double)
            b_tie = torch.zeros(C, dtype=torch.bool)
        if not last and (B * scale).abs().max() >= 2 ** 31:
            res.bad('scaled-bias-overflows-32-bit', **ctx, value=float((B * scale).abs().max()))
        # ---- integer accumulator recomputed by the harness
        if isinstance(Fq, QuantConv2d):
            A = F.conv2d(n, w, None, Fq.stride, Fq.padding, (1, 1) if tuple(L.dilation) == (1, 1)
                         and tuple(Fq.dilation) != (1, 1) else Fq.dilation, Fq.groups)
            bshape = (1, C, 1, 1)
        else:
            A = F.linear(n, w, None)
            bshape = (1, C)
        if A.shape != yi.shape:
            res.bad('integer-layer-output-shape', **ctx, got=list(yi.shape), want=list(A.shape))
            return res
        s_hat = (scale / 2.0 ** shift).view(bshape)
        Bv = B.view(bshape)
        d_in = delta(Fq.in_quantizer)
        if last:
            # final layer: MATCH out*(s_x*s_w) == logits ; MAUPITI out == logits
            with torch.no_grad():
                y_fq = Fq(n.float() * d_in).double()
            if backend == 'match':
                got = yi * (s_x * s_w).view(bshape)
                bound = A.abs() * (s_w.view(bshape) * abs(d_in - s_x)) + 1e-4 * (
                    1 + y_fq.abs())
            else:
                got = yi
                target = (s_x * s_w).view(bshape)
                bound = (A.abs() + Bv.abs()) * (s_hat - target).abs() + \
                    A.abs() * (s_w.view(bshape) * abs(d_in - s_x)) + 1e-4 * (1 + y_fq.abs())
            err = (got - y_fq).abs()
            if (err > bound).any():
                i = int(torch.argmax((err - bound).flatten()))
                res.bad('final-layer-does-not-reproduce-the-logits', **ctx,
                        err=float(err.flatten()[i]), allowed=float(bound.flatten()[i]),
                        logit=float(y_fq.flatten()[i]))
            continue
        p_out = int(Fq.out_quantizer.precision)
        off_out = 0 if backend == 'match' else 2 ** (p_out - 1)
        m_int = yi + off_out
        if not torch.equal(m_int, torch.round(m_int)) or m_int.min() < 0 or \
                m_int.max() > 2 ** p_out - 1:
            res.bad('integer-activations-outside-declared-range', **ctx, p_out=p_out,
                    min=float(m_int.min()), max=float(m_int.max()))
            return res
        # (a) the layer computes its documented integer formula exactly
        pre = (A * scale.view(bshape) + Bv * scale.view(bshape)) / 2.0 ** shift
        m_doc = torch.clamp(torch.floor(pre), 0, 2 ** p_out - 1)
        frac = pre - torch.floor(pre)
        near = (frac < 2e-3) | (frac > 1 - 2e-3)           # float32 arithmetic inside the layer
        diff = (m_int - m_doc).abs()
        if b_tie.any():
            # accept either rounding of a tied integer bias
            for db in (-1.0, 1.0):
                alt = torch.clamp(torch.floor(pre + (db * scale * b_tie.double()).view(bshape)
                                              / 2.0 ** shift), 0, 2 ** p_out - 1)
                diff = torch.minimum(diff, (m_int - alt).abs())
        if (diff > near.double()).any():
            i = int(torch.argmax((diff - near.double()).flatten()))
            res.bad('integer-layer-differs-from-its-documented-formula', **ctx, p_out=p_out,
                    got=float(m_int.flatten()[i]), formula=float(m_doc.flatten()[i]),
                    pre_floor=float(pre.flatten()[i]))
        # (b) agreement with the fake-quantized counterpart fed the same (integer-image) input
        d_out = delta(Fq.out_quantizer)
        with torch.no_grad():
            y_fq = Fq(n.float() * d_in).double()
        m_fq = torch.round(y_fq / d_out)
        bound = 1 + A.abs() * (s_hat - s_w.view(bshape) * d_in / d_out).abs() + \
            Bv.abs() * (s_hat - s_w.view(bshape) * s_x / d_out).abs() + 1e-3
        # at the top of the range the fake-quantized layer saturates at floor(clip/step), which
        # the 1e-3 stabiliser keeps a few levels below 2^p - 1 (by design): allow that gap there
        top_fq = math.floor(float(Fq.out_quantizer.clip_val.data[0]) / d_out)
        bound = bound + (m_fq >= top_fq).double() * ((2 ** p_out - 1) - top_fq)
        err = (m_int - m_fq).abs()
        worst = max(worst, float((err - bound).max()))
        if (err > bound).any():
            i = int(torch.argmax((err - bound).flatten()))
            res.bad('integer-layer-differs-from-fake-quantized-counterpart', **ctx, p_out=p_out,
                    integer=float(m_int.flatten()[i]), fake_quantized=float(m_fq.flatten()[i]),
                    allowed=float(bound.flatten()[i]))
        # (c) the scale/shift approximation is as good as its own resolution
        tgt = (s_w * s_x / float(Fq.out_quantizer.scale))
        appr = scale / 2.0 ** shift
        tol = 2.0 ** -shift * (1 + 1e-3) + 1e-6 * float(tgt.abs().max()) + 1e-12   # float32 target
        sat = (scale <= 1) | (scale >= 2 ** (sb - 1))
        if ((appr - tgt).abs() > tol)[~sat].any():
            res.bad('scale-shift-approximation-worse-than-its-resolution', **ctx,
                    worst=float(((appr - tgt).abs())[~sat].max()), resolution=tol)
        # (d) the chosen shift is (near) the one minimising the mean approximation error among the
        # shifts whose scaled bias fits 32 bits.  The harness' own search uses, like the documented
        # binary search, the smallest integer scale with scale/2^shift >= target.
        best = None
        for sh in range(sp):
            sc = torch.clamp(torch.ceil(tgt * 2.0 ** sh), 1, 2 ** (sb - 1))
            if (B * sc).abs().max() >= 2 ** 31:
                continue
            e = float((sc / 2.0 ** sh - tgt).abs().mean())
            best = e if best is None else min(best, e)
        mine = float((appr - tgt).abs().mean())
        # (not demanded by the property as such - it guards the 'bound implied by its own
        # approximation' clause against a degenerate shift choice - hence the generous slack: an
        # approximation error below 0.1% of the target is never reported)
        if best is not None and mine > 3 * best + 2.0 ** -(sp - 1) + 1e-3 * float(
                tgt.abs().mean()) + 1e-15:
            res.bad('chosen-shift-far-from-the-error-minimising-one', **ctx, shift=shift,
                    mean_error=mine, best_achievable=best)
        levels_used = max(levels_used, int(torch.unique(m_int).numel()))
        sat_frac = max(sat_frac, float((m_int == 2 ** p_out - 1).double().mean()))
    res.nontrivial = levels_used >= 3 and sat_frac < 1.0
    res.ev('backend:' + backend, 'mixed-precision' if len(case['w_prec']) > 1 else 'uniform',
           *[f"w{b}" for b in case['w_prec']], *[f"a{b}" for b in case['a_prec']])
    if any(not n.get('bias', True) for n in spec['nodes'] if n['op'] in ng.LAYER_OPS):
        res.ev('bias-free-layer')
    if any('dil' in n for n in spec['nodes']):
        axis = [0 if n['dil'][0] > 1 else 1 for n in spec['nodes'] if 'dil' in n]
        res.ev(*[f"dilation-axis-{a}" for a in axis])
    if any(ng.is_dw(n) for n in spec['nodes']):
        res.ev('depthwise')
    if case['kwargs']:
        res.ev('custom-scale-bits')
    res.obs = {'layers': len(order), 'max_distinct_levels': levels_used,
               'worst_margin_vs_bound': worst}
    return res


CHECK = Check(
    prop='C14',
    parts=[
        Part('match', oracle, strategy=cases('match'),
             budget={'quick': 120, 'thorough': 700}, shards={'quick': 1, 'thorough': 16}),
        Part('maupiti', oracle, strategy=cases('maupiti'),
             budget={'quick': 80, 'thorough': 500}, shards={'quick': 1, 'thorough': 16}),
    ],
    rule=("Sequential and depthwise-separable 2-D networks (Conv2d 1x1/3x3 with stride/padding "
          "variants, depthwise 3x3, MATCH: (k,1)/(1,k) kernels with dilation 2 on either axis, "
          "bias on/off, BN folded, ReLU variants, flatten, one or two Linear layers; MATCH also a "
          "convolutional last layer), weight / activation precisions uniform or mixed from {2,4,8} "
          "with random selection coefficients, MATCH scale_bit/shift_pos in {16,24}; PACT clip "
          "values calibrated layer by layer; inputs uniform in [-0.2,1.3]. The integer network runs "
          "on its own activations; every integer layer is compared (a) with its documented integer "
          "formula recomputed in float64 from its stored integers, (b) with its fake-quantized "
          "counterpart fed the integer image of the same input, within 1 level + the bound implied "
          "by its own scale/shift, (c) ranges of weights / activations / scale / shift / scaled "
          "bias, scale/shift resolution; the last layer against the real-valued logits. "
          "Non-trivial = some layer output uses >= 3 distinct levels and is not saturated "
          "everywhere; distinct by case hash."),
    assumptions=[
        "the bound of (b) is derived from the layer's own scale/shift (a self-consistent but poor "
        "approximation is caught by (c), not by (b))",
        "(a) tolerates +-1 only where the pre-floor value lies within 2e-3 of an integer (the "
        "layer computes in float32)",
        "MAUPITI networks end with a Linear layer and use square kernels / paddings (what the "
        "backend implements); dilated depthwise convolutions and residual adds are outside the "
        "generated grammar (no integer counterpart exists)",
    ],
)
