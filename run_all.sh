#!/bin/sh
# Runs every registered check (tier $1, default quick) and prints one line per check.
TIER=${1:-quick}
cd "$(dirname "$0")" || exit 2
for id in $(/venv/bin/python -c "import json;print(' '.join(c['property_id'] for c in json.load(open('MANIFEST.json'))['checks']))"); do
  s=$(date +%s)
  out=$(./check $id --tier $TIER 2>&1); rc=$?
  e=$(date +%s)
  echo "$id rc=$rc $((e-s))s $(echo "$out" | grep -c '^VIOLATION') violations; $(echo "$out" | grep -c '^KNOWN-FINDING') known; $(echo "$out" | tail -1 | cut -c1-120)"
done
