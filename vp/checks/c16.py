"""C16 - built-in cost models are finite, non-negative and monotone in layer size."""
from __future__ import annotations

import itertools
import math

from hypothesis import strategies as st

from ..core import Check, Part, Result

SIZE_SPECS = ['params', 'params_no_bias', 'ops', 'ops_no_bias']           # hardware independent
BIT_SPECS = ['params_bit', 'ops_bit', 'mpic_latency', 'mpic_energy', 'ne16_latency']
ALL_SPECS = SIZE_SPECS + BIT_SPECS + ['gap8_latency', 'diana_latency']
RTOL = 1e-6

CH_QUICK = sorted(set(list(range(1, 21)) + [30, 31, 32, 33, 34, 47, 48, 49, 62, 63, 64, 65, 66,
                                            126, 127, 128, 129, 130] +
                      [1.5, 3.5, 15.5, 16.5, 31.5, 32.5, 63.5, 64.5, 127.5, 128.5]))
CH_FULL = sorted(set(list(range(1, 131)) + [c + 0.5 for c in range(1, 130, 3)]))
CH_FULL_Y = sorted(set(list(range(1, 131, 1))))


def entries():
    """[(spec name, type name, is_dw, fn)] for every pattern registered by every built-in spec."""
    import plinio.cost as pc
    from plinio.cost.pattern import conv_dw_constraint
    out = []
    for name in ALL_SPECS:
        cs = getattr(pc, name)
        for t, lst in cs.data.items():
            for constr, fn in lst:
                assert constr in (None, conv_dw_constraint), (name, t, constr)
                out.append((name, t.__name__, constr is not None, fn))
    return out


def entry(name, tname, dw):
    for e in entries():
        if e[:3] == (name, tname, dw):
            return e[3]
    raise KeyError((name, tname, dw))


def allowed_bits(name):
    """(weight bits, activation bits) domains of a model."""
    if name == 'diana_latency':
        return [2, 8], [8]
    if name == 'ne16_latency':
        return [2, 4, 8], [8]
    return [2, 4, 8], [2, 4, 8]


def allowed_k(name, tname, dw):
    if tname == 'Linear':
        return [None]
    if name == 'ne16_latency':
        return [3] if dw else [1, 3]
    return [1, 3, 5, 7]


def make_spec(name, tname, dw, cin, cout, k, out, bias, w_bits, a_bits, grad=False):
    import torch

    def T(v):
        return torch.tensor(float(v), requires_grad=grad)
    s = {'_parameters': {'bias': (object() if bias else None)}, 'w_theta_alpha': torch.tensor(1.0),
         'in_format': int, 'w_format': int,
         'in_precision': torch.tensor(float(a_bits)), 'a_precision': torch.tensor(float(a_bits)),
         'w_precision': torch.tensor(float(w_bits))}
    if tname == 'Linear':
        s.update(in_features=T(cin), out_features=T(cout), output_shape=(1, int(math.ceil(cout))))
        return s
    nd = 1 if tname == 'Conv1d' else 2
    s.update(in_channels=T(cin), out_channels=T(cout), kernel_size=(k,) * nd,
             groups=(cin if dw else 1), dilation=(1,) * nd, stride=(1,) * nd,
             output_shape=(1, int(math.ceil(cout))) + tuple(out[:nd]))
    return s


def call(fn, spec):
    v = fn(spec)
    return float(v)


def check_seq(res, what, xs, ys, ctx):
    """finite, >= 0, non-decreasing."""
    for x, y in zip(xs, ys):
        if not math.isfinite(y):
            res.bad('cost-not-finite', where=what, at=x, **ctx)
            return
        if y < 0:
            res.bad('cost-negative', where=what, at=x, value=y, **ctx)
            return
    for i in range(1, len(ys)):
        if ys[i] < ys[i - 1] - RTOL * max(abs(ys[i - 1]), 1e-30):
            res.bad('cost-decreases-when-layer-grows', axis=what, frm=xs[i - 1], to=xs[i],
                    before=ys[i - 1], after=ys[i], **ctx)
            return


# ----------------------------------------------------------------------------------------
# grids over (cin, cout) - or the joint channel count for depthwise patterns
# ----------------------------------------------------------------------------------------
SHAPES = [(1, (1, 1)), (3, (7, 5)), (3, (33, 16)), (5, (16, 33)), (7, (8, 8))]


def enum_grids(tier):
    for (name, tname, dw, _fn) in entries():
        wb, ab = allowed_bits(name)
        ks = allowed_k(name, tname, dw)
        combos = []
        for si, (k, out) in enumerate(SHAPES):
            if tname == 'Linear':
                if si > 0:
                    continue
                k = None
            elif k not in ks:
                continue
            combos.append((k, out))
        for (k, out) in combos[: (2 if tier == 'quick' else 5)]:
            for w in ([wb[0], wb[-1]] if tier == 'quick' else wb):
                for a in ([ab[-1]] if tier == 'quick' else ab):
                    for bias in ((True,) if tier == 'quick' else (True, False)):
                        yield {'mode': 'grid', 'spec': name, 'type': tname, 'dw': dw, 'k': k,
                               'out': list(out), 'w_bits': w, 'a_bits': a, 'bias': bias,
                               'full': tier != 'quick'}


def oracle_grid(case) -> Result:
    res = Result()
    name, tname, dw = case['spec'], case['type'], case['dw']
    fn = entry(name, tname, dw)
    ch = CH_FULL if case['full'] else CH_QUICK
    ctx = {'spec': name, 'pattern': f"{tname}{'DW' if dw else ''}", 'k': case['k'],
           'out': case['out'], 'w_bits': case['w_bits'], 'a_bits': case['a_bits']}
    n = 0

    def f(cin, cout):
        return call(fn, make_spec(name, tname, dw, cin, cout, case['k'], case['out'],
                                  case['bias'], case['w_bits'], case['a_bits']))
    if dw:
        xs = [c for c in ch if c >= 2 and float(c).is_integer()]   # groups must be an integer
        ys = [f(c, c) for c in xs]
        n += len(xs)
        check_seq(res, 'channels(depthwise)', xs, ys, ctx)
        if ys and min(ys) <= 0:
            res.bad('cost-not-positive-for-non-empty-layer', **ctx)
    else:
        rows = {}
        cin_vals = ch if case['full'] else ch[::2] + [ch[-1]]
        for cin in cin_vals:
            xs = [c for c in ch if not (cin == 1 and c == 1 and tname != 'Linear')]   # 1->1 conv matches the dw pattern
            ys = [f(cin, c) for c in xs]
            n += len(xs)
            rows[cin] = dict(zip(xs, ys))
            check_seq(res, 'out_channels', xs, ys, dict(ctx, cin=cin))
            if res.discrepancies:
                return res
            if min(ys) <= 0:
                res.bad('cost-not-positive-for-non-empty-layer', cin=cin, **ctx)
                return res
        for cout in ch:
            xs = [c for c in cin_vals if cout in rows[c]]
            ys = [rows[c][cout] for c in xs]
            check_seq(res, 'in_channels', xs, ys, dict(ctx, cout=cout))
            if res.discrepancies:
                return res
    res.nontrivial = True
    res.ev('spec:' + name, 'pattern:' + ctx['pattern'])
    res.obs = {'cost_evaluations': n}
    return res


# ----------------------------------------------------------------------------------------
# axis sweeps through drawn base points (kernel, output size, bits, channels)
# ----------------------------------------------------------------------------------------
@st.composite
def sweep_cases(draw):
    import plinio.cost  # noqa  (entries() needs it)
    ents = [(n, t, d) for n, t, d, _ in entries()]
    name, tname, dw = draw(st.sampled_from(ents))
    wb, ab = allowed_bits(name)
    ks = allowed_k(name, tname, dw)
    frac = draw(st.booleans())

    def chan():
        c = draw(st.integers(1, 130))
        return c + 0.5 if (frac and not dw and c < 130) else c
    cin, cout = chan(), chan()
    if dw:
        cin = cout = max(2, int(cin))
    elif cin == 1 and cout == 1 and tname != 'Linear':
        cout = 2
    axes = ['cin', 'cout', 'out_x', 'out_y']
    if len(ks) > 1:
        axes.append('k')
    if name in BIT_SPECS:
        axes.append('w_bits')
        if len(ab) > 1:
            axes.append('a_bits')
    if tname == 'Linear':
        axes = [a for a in axes if not a.startswith('out_') and a != 'k']
    return {'mode': 'sweep', 'spec': name, 'type': tname, 'dw': dw, 'cin': cin, 'cout': cout,
            'k': draw(st.sampled_from(ks)), 'out': [draw(st.integers(1, 33)), draw(st.integers(1, 33))],
            'bias': draw(st.booleans()), 'w_bits': draw(st.sampled_from(wb)),
            'a_bits': draw(st.sampled_from(ab)), 'axis': draw(st.sampled_from(axes))}


def oracle_sweep(case) -> Result:
    import torch
    res = Result()
    name, tname, dw = case['spec'], case['type'], case['dw']
    fn = entry(name, tname, dw)
    wb, ab = allowed_bits(name)
    base = dict(cin=case['cin'], cout=case['cout'], k=case['k'], out=list(case['out']),
                bias=case['bias'], w_bits=case['w_bits'], a_bits=case['a_bits'])
    axis = case['axis']
    if axis in ('cin', 'cout'):
        xs = [c for c in CH_FULL]
        if dw:
            xs = [c for c in range(2, 131)]
    elif axis in ('out_x', 'out_y'):
        xs = list(range(1, 34))
    elif axis == 'k':
        xs = allowed_k(name, tname, dw)
    elif axis == 'w_bits':
        xs = ([0] if name in ('params_bit', 'ops_bit', 'mpic_latency', 'mpic_energy') else []) + wb
    else:
        xs = ab
    ys = []
    for x in xs:
        b = dict(base)
        if axis == 'cin':
            b['cin'] = x
            if dw:
                b['cout'] = x
        elif axis == 'cout':
            b['cout'] = x
            if dw:
                b['cin'] = x
        elif axis == 'out_x':
            b['out'] = [x, base['out'][1]]
        elif axis == 'out_y':
            b['out'] = [base['out'][0], x]
        else:
            b[axis] = x
        if not dw and tname != 'Linear' and b['cin'] == 1 and b['cout'] == 1:
            continue      # the 1->1 convolution belongs to the depthwise pattern
        ys.append((x, call(fn, make_spec(name, tname, dw, **b))))
    ctx = {'spec': name, 'pattern': f"{tname}{'DW' if dw else ''}",
           'base': {k: v for k, v in base.items()}}
    check_seq(res, axis, [x for x, _ in ys], [y for _, y in ys], ctx)
    pos = [y for x, y in ys if not (axis == 'w_bits' and x == 0)]
    if pos and min(pos) <= 0:
        res.bad('cost-not-positive-for-non-empty-layer', axis=axis, **ctx)
    # gradient flows to the (relaxed) channel counts and is finite
    sp = make_spec(name, tname, dw, grad=True, **base)
    v = fn(sp)
    if isinstance(v, torch.Tensor) and v.requires_grad:
        keys = ('in_features', 'out_features') if tname == 'Linear' else ('in_channels',
                                                                          'out_channels')
        gs = torch.autograd.grad(v, [sp[k] for k in keys], allow_unused=True)
        for k, g in zip(keys, gs):
            if g is not None and not bool(torch.isfinite(g).all()):
                res.bad('gradient-not-finite', wrt=k, **ctx)
    res.nontrivial = len(ys) >= 2
    res.ev('spec:' + name, 'axis:' + axis, 'pattern:' + ctx['pattern'])
    res.obs = {'points': len(ys), 'first': ys[0], 'last': ys[-1]}
    return res


# ----------------------------------------------------------------------------------------
# depthwise formula == generic formula per group x groups (hardware-independent metrics)
# ----------------------------------------------------------------------------------------
def enum_dw_equiv(tier):
    for name in SIZE_SPECS + ['params_bit', 'ops_bit']:
        for tname in ('Conv1d', 'Conv2d'):
            for C in ([2, 3, 8, 33] if tier == 'quick' else range(2, 66)):
                for k in (1, 3, 5, 7):
                    for bias in (True, False):
                        yield {'mode': 'dw', 'spec': name, 'type': tname, 'C': C, 'k': k,
                               'bias': bias, 'out': [7, 5]}


def oracle_dw(case) -> Result:
    res = Result()
    name, tname, C, k = case['spec'], case['type'], case['C'], case['k']
    f_dw = entry(name, tname, True)
    f_gen = entry(name, tname, False)
    kw = dict(k=k, out=case['out'], bias=case['bias'], w_bits=4, a_bits=8)
    dwv = call(f_dw, make_spec(name, tname, True, C, C, **kw))
    s1 = make_spec(name, tname, False, 1, 1, **kw)
    genv = call(f_gen, s1) * C
    if abs(dwv - genv) > 1e-6 * max(1.0, abs(genv)):
        res.bad('depthwise-formula-differs-from-generic-per-group', spec=name, type=tname, C=C, k=k,
                bias=case['bias'], depthwise=dwv, generic_per_group_times_groups=genv)
    res.nontrivial = True
    res.ev('spec:' + name)
    res.obs = {'depthwise': dwv, 'generic_x_groups': genv}
    return res


# ----------------------------------------------------------------------------------------
# descriptions of real, un-converted layers (plain numbers): what the library itself hands to the
# cost functions for the layers outside the search when full_cost is set
# ----------------------------------------------------------------------------------------
PLAIN_SPECS = SIZE_SPECS + ['gap8_latency']      # the specs of the methods that keep fixed layers


def enum_plain(tier):
    chans = [1, 2, 3, 8, 31, 32, 33] if tier == 'quick' else [1, 2, 3, 4, 7, 8, 9, 16, 31, 32, 33, 65]
    for name in PLAIN_SPECS:
        for (n2, tname, dw, _fn) in entries():
            if n2 != name:
                continue
            for cin in chans:
                for cout in ([cin] if dw else chans):
                    if dw and cin < 2:
                        continue
                    for k in ([None] if tname == 'Linear' else [1, 3, 5]):
                        for bias in (True, False):
                            yield {'mode': 'plain', 'spec': name, 'type': tname, 'dw': dw,
                                   'cin': cin, 'cout': cout, 'k': k, 'bias': bias, 'out': [7, 5]}


def oracle_plain(case) -> Result:
    """vars() of a real nn layer + its output shape (exactly the dictionary PIT / SuperNet build for
    a layer outside the search) must be priced like the same layer described with tensors."""
    import torch
    import torch.nn as nn
    res = Result()
    name, tname, dw = case['spec'], case['type'], case['dw']
    cin, cout, k, bias = case['cin'], case['cout'], case['k'], case['bias']
    fn = entry(name, tname, dw)
    if tname == 'Linear':
        layer = nn.Linear(cin, cout, bias=bias)
        oshape = torch.Size((1, cout))
    elif tname == 'Conv1d':
        layer = nn.Conv1d(cin, cout, k, groups=(cin if dw else 1), bias=bias)
        oshape = torch.Size((1, cout, case['out'][0]))
    else:
        layer = nn.Conv2d(cin, cout, k, groups=(cin if dw else 1), bias=bias)
        oshape = torch.Size((1, cout) + tuple(case['out']))
    v = dict(vars(layer))
    v['output_shape'] = oshape
    ref = call(fn, make_spec(name, tname, dw, cin, cout, k, case['out'], bias, 8, 8))
    try:
        got = float(fn(v))
    except Exception as e:  # noqa
        res.bad('real-layer-description-not-priced', spec=name, type=tname, dw=dw, cin=cin, cout=cout,
                k=k, bias=bias, error=f"{type(e).__name__}: {str(e)[:120]}")
        return res
    if not math.isfinite(got) or got < 0 or abs(got - ref) > 1e-6 * max(1.0, abs(ref)):
        res.bad('real-layer-description-priced-differently', spec=name, type=tname, dw=dw, cin=cin,
                cout=cout, k=k, bias=bias, plain_numbers=got, tensors=ref)
    res.nontrivial = True
    res.ev('spec:' + name, 'plain-number-description')
    res.obs = {'plain': got, 'tensors': ref}
    return res


# ----------------------------------------------------------------------------------------
# selection coefficient of the bit-aware models that divide by it (NE16): any value in (0, 1]
# ----------------------------------------------------------------------------------------
THETAS = [1.0, 0.5, 1e-3, 1e-7, 1e-12, 1e-13, 1e-19, 1e-20, 1e-30, 1e-36, 1e-38, 1e-44]


def enum_theta(tier):
    for (name, tname, dw, _fn) in entries():
        if name != 'ne16_latency':
            continue
        for k in allowed_k(name, tname, dw):
            for w in (2, 4, 8):
                for (cin, cout) in ((3, 8), (16, 33)):
                    if dw:
                        cin = cout
                    yield {'mode': 'theta', 'spec': name, 'type': tname, 'dw': dw, 'k': k,
                           'w_bits': w, 'cin': cin, 'cout': cout, 'out': [5, 5]}


def oracle_theta(case) -> Result:
    """The layer functions return latency / w_theta_alpha because the caller multiplies by the
    coefficient: the contribution theta * f(theta) and its gradients must stay finite and
    non-negative for every coefficient a soft-max can produce, however small."""
    import torch
    res = Result()
    name, tname, dw = case['spec'], case['type'], case['dw']
    fn = entry(name, tname, dw)
    for th in THETAS:
        sp = make_spec(name, tname, dw, case['cin'], case['cout'], case['k'], case['out'], True,
                       case['w_bits'], 8, grad=True)
        t = torch.tensor(th, dtype=torch.float32, requires_grad=True)
        if float(t) == 0.0:
            continue
        sp['w_theta_alpha'] = t
        try:
            v = fn(sp)
            contrib = t * v
            gs = torch.autograd.grad(contrib, [t] + [sp[k] for k in sp if isinstance(sp[k], torch.Tensor)
                                                     and sp[k].requires_grad and sp[k] is not t],
                                     allow_unused=True)
        except Exception as e:  # noqa
            res.bad('cost-raised-for-a-small-selection-coefficient', theta=th, type=tname, dw=dw,
                    error=f"{type(e).__name__}: {str(e)[:120]}")
            return res
        if not math.isfinite(float(v)) or not math.isfinite(float(contrib)) or float(contrib) < 0:
            res.bad('cost-not-finite-for-a-small-selection-coefficient', theta=th, type=tname, dw=dw,
                    k=case['k'], w_bits=case['w_bits'], value=float(v), contribution=float(contrib))
            return res
        if any(g is not None and not bool(torch.isfinite(g).all()) for g in gs):
            res.bad('gradient-not-finite-for-a-small-selection-coefficient', theta=th, type=tname,
                    dw=dw, k=case['k'], w_bits=case['w_bits'])
            return res
    res.nontrivial = True
    res.ev('spec:' + name, 'selection-coefficient-sweep')
    return res


# ----------------------------------------------------------------------------------------
# rounding helpers
# ----------------------------------------------------------------------------------------
def helpers():
    import sys
    import plinio.cost  # noqa
    # (the sub-module names are shadowed by the CostSpec objects of the same name in the package)
    g8 = sys.modules['plinio.cost.gap8_latency']
    di = sys.modules['plinio.cost.diana_latency']
    ne = sys.modules['plinio.cost.ne16_latency']
    return {
        'gap8.FloorSTE': (lambda a, b: g8.FloorSTE.apply(a, b), lambda a, b: -(-a // b)),
        'gap8._floor': (lambda a, b: g8._floor(a, b), lambda a, b: -(-a // b)),
        'diana.FloorSTE': (lambda a, b: di.FloorSTE.apply(a, b), lambda a, b: -(-a // b)),
        'diana._floor': (lambda a, b: di._floor(a, b), lambda a, b: -(-a // b)),
        'ne16.FloorDivideSTE': (lambda a, b: ne.FloorDivideSTE.apply(a, b), lambda a, b: a // b),
        'ne16.DivAndCeilSTE': (lambda a, b: ne.DivAndCeilSTE.apply(a, b), lambda a, b: -(-a // b)),
        'ne16.ModuloSTE': (lambda a, b: ne.ModuloSTE.apply(a, b), lambda a, b: a % b),
    }


def enum_helpers(tier):
    for h in ['gap8.FloorSTE', 'gap8._floor', 'diana.FloorSTE', 'diana._floor',
              'ne16.FloorDivideSTE', 'ne16.DivAndCeilSTE', 'ne16.ModuloSTE']:
        for b in (2, 3, 4, 8, 16, 32, 128, 256, 512):
            yield {'mode': 'helper', 'helper': h, 'b': b, 'amax': 300 if tier == 'quick' else 1200}


def oracle_helper(case) -> Result:
    import torch
    res = Result()
    fn, ref = helpers()[case['helper']]
    b = case['b']
    plain = case['helper'].endswith('_floor')
    for a in range(1, case['amax'] + 1):
        got = fn(a, b) if plain else fn(torch.tensor(float(a)), b)
        if float(got) != float(ref(a, b)):
            res.bad('helper-wrong-on-integers', helper=case['helper'], a=a, b=b, got=float(got),
                    want=float(ref(a, b)))
            return res
    if not plain:
        for a in [x + f for x in range(1, min(case['amax'], 200)) for f in (0.25, 0.5, 0.75)]:
            got = float(fn(torch.tensor(a), b))
            lo, hi = float(ref(math.floor(a), b)), float(ref(math.ceil(a), b))
            if 'Modulo' in case['helper']:
                ok = 0 <= got < b
            else:
                ok = got == round(got) and min(lo, hi) <= got <= max(lo, hi)
            if not ok:
                res.bad('helper-wrong-on-fractional', helper=case['helper'], a=a, b=b, got=got,
                        bracket=[lo, hi])
                return res
        t = torch.tensor(37.0, requires_grad=True)
        (g,) = torch.autograd.grad(fn(t, b), [t])
        if float(g) != 1.0:
            res.bad('helper-gradient-not-passed-through', helper=case['helper'], b=b,
                    grad=float(g))
    res.nontrivial = True
    res.ev('helper:' + case['helper'])
    return res


# ----------------------------------------------------------------------------------------
# restricted models reject unsupported precisions / kinds
# ----------------------------------------------------------------------------------------
def enum_rejects(tier):
    # every unsupported activation precision (0 included) against EVERY weight precision of the
    # grid (0 = pruned included), both MPIC models, every layer kind
    for spec in ('mpic_latency', 'mpic_energy'):
        for a in (0, 1, 3, 5, 6, 7, 16, 32):
            for w in (0, 2, 4, 8):
                for t, dw in (('Conv1d', False), ('Conv1d', True), ('Conv2d', False),
                              ('Conv2d', True), ('Linear', False)):
                    yield {'mode': 'reject', 'spec': spec, 'type': t, 'dw': dw, 'k': 3,
                           'w_bits': w, 'a_bits': a}
    for w in (1, 3, 5, 6, 16):
        yield {'mode': 'reject', 'spec': 'mpic_latency', 'type': 'Conv2d', 'dw': False, 'k': 3,
               'w_bits': w, 'a_bits': 8}
    for a in (2, 4, 7, 16):
        for t, dw in (('Conv2d', False), ('Conv2d', True), ('Linear', False)):
            yield {'mode': 'reject', 'spec': 'ne16_latency', 'type': t, 'dw': dw, 'k': 3,
                   'w_bits': 8, 'a_bits': a}
    for k in (2, 5, 7):
        yield {'mode': 'reject', 'spec': 'ne16_latency', 'type': 'Conv2d', 'dw': False, 'k': k,
               'w_bits': 8, 'a_bits': 8}
    for k in (1, 5):
        yield {'mode': 'reject', 'spec': 'ne16_latency', 'type': 'Conv2d', 'dw': True, 'k': k,
               'w_bits': 8, 'a_bits': 8}
    for (w, a) in ((4, 8), (2, 4), (8, 4), (0, 8), (8, 2), (3, 8)):
        for t in ('Conv2d', 'Linear'):
            yield {'mode': 'reject', 'spec': 'diana_latency', 'type': t, 'dw': False, 'k': 3,
                   'w_bits': w, 'a_bits': a}
    # analog accelerator with a grouped convolution
    yield {'mode': 'reject', 'spec': 'diana_latency', 'type': 'Conv2d', 'dw': False, 'k': 3,
           'w_bits': 2, 'a_bits': 8, 'groups': 4}


def oracle_reject(case) -> Result:
    res = Result()
    fn = entry(case['spec'], case['type'], case['dw'])
    C = 8
    sp = make_spec(case['spec'], case['type'], case['dw'], C, C, case['k'], [6, 6], True,
                   case['w_bits'], case['a_bits'])
    if 'groups' in case:
        sp['groups'] = case['groups']
    try:
        v = fn(sp)
        res.bad('unsupported-configuration-not-rejected', value=float(v),
                **{k: v2 for k, v2 in case.items() if k != 'mode'})
    except (AssertionError, ValueError, KeyError):
        pass
    res.nontrivial = True
    res.ev('spec:' + case['spec'])
    return res


CHECK = Check(
    prop='C16',
    parts=[
        Part('helpers', oracle_helper, enumerate=enum_helpers,
             exhaustive_note='7 rounding helpers x 9 divisors x integers 1..300 (thorough 1..1200) '
                             'and quarter fractions'),
        Part('rejects', oracle_reject, enumerate=enum_rejects,
             exhaustive_note='unsupported precisions / kernels / kinds of mpic, ne16, diana'),
        Part('real-layer-descriptions', oracle_plain, enumerate=enum_plain,
             exhaustive_note='params / ops (+no_bias) / gap8 on vars() of real nn.Conv1d/Conv2d/'
                             'Linear layers (plain-number channel counts) x channels x kernels x bias'),
        Part('selection-coefficient', oracle_theta, enumerate=enum_theta,
             exhaustive_note='every NE16 pattern x kernels x weight bits x 2 sizes x 12 selection '
                             'coefficients from 1 down to 1e-44 (value, contribution, gradients)'),
        Part('dw-equals-generic', oracle_dw, enumerate=enum_dw_equiv,
             exhaustive_note='size/ops/bit specs x Conv1d/2d x channels x kernels x bias'),
        Part('grids', oracle_grid, enumerate=enum_grids, enum_parallel=True,
             shards={'quick': 8, 'thorough': 16},
             exhaustive_note='every registered pattern of every built-in spec: (cin x cout) grids '
                             '(quick: 46 channel values incl. tile edges and fractions; thorough: '
                             '1..130 + fractions) at fixed shapes / bit-widths'),
        Part('sweeps', oracle_sweep, strategy=sweep_cases(),
             budget={'quick': 300, 'thorough': 1500}, shards={'quick': 1, 'thorough': 16}),
    ],
    rule=("Every cost function registered by every CostSpec of plinio.cost is called directly on "
          "hand-built layer descriptions. grids: complete (cin x cout) grids per pattern; sweeps: "
          "Hypothesis base points (channels 1..130 incl. x.5 fractions, kernels {1,3,5,7} where the "
          "model permits, output sizes 1..33, bits from the model's domain, bias on/off) swept "
          "along one axis (in/out channels, kernel, output rows/cols, weight bits, activation bits) "
          "with the pattern held fixed; checks finite, >= 0, > 0 for non-empty layers at non-zero "
          "bits, non-decreasing, finite gradients. real-layer-descriptions: vars() of a real "
          "un-converted nn layer plus its output shape (what PIT / SuperNet show the cost function "
          "for layers outside the search) is priced like the tensor description. selection-coefficient: the NE16 functions (which divide by the weight-selection "
          "coefficient) stay finite in value, contribution and gradients for coefficients from 1 "
          "down to 1e-44. Non-trivial = a sweep/grid with >= 2 points; "
          "distinct by case hash."),
    assumptions=[
        "monotonicity is per registered function: generic sweeps never pass through the 1->1 "
        "convolution (which matches the depthwise pattern), depthwise sweeps use groups=cin=cout>=2",
        "relative tolerance 1e-6 on 'does not decrease'",
    ],
)
