"""Sensitivity (mutation) protocol.

python -m vp.mutate [name ...]        run the listed mutants (default: all) against the quick tier
python -m vp.mutate --patch FILE --props C01,C04   run a unified diff (e.g. seeded/<id>/patch.diff)

Each mutant in mutants/*.json is {"file", "old", "new", "props": [...], "why"}.  The repository is
copied to a scratch directory under /tmp, the edit is applied there, each listed property's check
runs with VERIF_REPO pointing at the copy and must exit 1 with a VIOLATION line.  The copy is
removed afterwards; /repo is never touched.
"""
from __future__ import annotations

import argparse
import glob
import json
import os
import shutil
import subprocess
import sys
import tempfile
import time

ROOT = os.path.dirname(os.path.dirname(os.path.abspath(__file__)))


def scratch_copy():
    d = tempfile.mkdtemp(prefix='plinio_mut_')
    shutil.copytree('/repo/plinio', os.path.join(d, 'plinio'),
                    ignore=shutil.ignore_patterns('__pycache__'))
    return d


def run_check(prop, repo, tier='quick', seed='1'):
    # evidence of runs against a modified tree must not overwrite the real evidence files
    env = dict(os.environ, VERIF_REPO=repo, VERIF_SEED=seed,
               VERIF_EVIDENCE_DIR=os.path.join(repo, 'evidence'),
               VERIF_OUT_DIR=os.environ.get('VERIF_MUT_OUT', os.path.join(ROOT, 'out', 'mutants')))
    t0 = time.time()
    p = subprocess.run([os.path.join(ROOT, 'check'), prop, '--tier', tier], env=env,
                       capture_output=True, text=True)
    viol = [l for l in p.stdout.splitlines() if l.startswith('VIOLATION')]
    return p.returncode, viol, p.stderr[-1500:], time.time() - t0


def run_mutant(m, tier='quick'):
    d = scratch_copy()
    try:
        path = os.path.join(d, m['file'])
        s = open(path).read()
        if m['old'] not in s:
            return {'name': m['name'], 'error': 'pattern not found'}
        open(path, 'w').write(s.replace(m['old'], m['new'], -1 if m.get('all') else 1))
        out = {'name': m['name'], 'results': {}}
        for prop in m['props']:
            rc, viol, err, wall = run_check(prop, d, tier)
            out['results'][prop] = {'exit': rc, 'violations': len(viol), 'wall_s': round(wall, 1),
                                    'stderr_tail': err if rc not in (0, 1) else
                                    '\n'.join(l for l in err.splitlines() if 'bucket=' in l)[:600]}
        return out
    finally:
        shutil.rmtree(d, ignore_errors=True)


def run_patch(patch, props, tier='quick'):
    d = scratch_copy()
    try:
        p = subprocess.run(['patch', '-p1', '-d', d, '-i', os.path.abspath(patch)],
                           capture_output=True, text=True)
        if p.returncode != 0:
            return {'name': patch, 'error': p.stdout + p.stderr}
        out = {'name': patch, 'results': {}}
        for prop in props:
            rc, viol, err, wall = run_check(prop, d, tier)
            out['results'][prop] = {'exit': rc, 'violations': len(viol), 'wall_s': round(wall, 1),
                                    'stderr_tail': '\n'.join(
                                        l for l in err.splitlines() if 'bucket=' in l)[:600]
                                    if rc in (0, 1) else err}
        return out
    finally:
        shutil.rmtree(d, ignore_errors=True)


def main():
    ap = argparse.ArgumentParser()
    ap.add_argument('names', nargs='*')
    ap.add_argument('--patch')
    ap.add_argument('--props')
    ap.add_argument('--tier', default='quick')
    ap.add_argument('-j', type=int, default=4)
    a = ap.parse_args()
    if a.patch:
        r = run_patch(a.patch, a.props.split(','), a.tier)
        print(json.dumps(r, indent=1))
        return 0
    muts = []
    for f in sorted(glob.glob(os.path.join(ROOT, 'mutants', '*.json'))):
        for m in json.load(open(f)):
            if not a.names or m['name'] in a.names or any(m['name'].startswith(n) for n in a.names):
                muts.append(m)
    from concurrent.futures import ThreadPoolExecutor
    survived = 0
    with ThreadPoolExecutor(a.j) as ex:
        for r in ex.map(lambda m: run_mutant(m, a.tier), muts):
            if 'error' in r:
                print(f"{r['name']}: ERROR {r['error']}")
                survived += 1
                continue
            for prop, x in r['results'].items():
                status = 'KILLED' if x['exit'] == 1 else ('SURVIVED' if x['exit'] == 0 else
                                                          f"HARNESS-ERROR({x['exit']})")
                if x['exit'] != 1:
                    survived += 1
                print(f"{r['name']:45s} {prop} {status:10s} {x['wall_s']:6.1f}s  "
                      f"{x['stderr_tail'].strip().splitlines()[0] if x['stderr_tail'].strip() else ''}")
            sys.stdout.flush()
    return 1 if survived else 0


if __name__ == '__main__':
    sys.exit(main())
