"""NetSpec grammar: JSON-serialisable DAG of supported ops, Hypothesis strategies that build
such DAGs constructively (shape bookkeeping while drawing), a deterministic builder
(NetSpec, wseed) -> nn.Module, pure-Python shape inference and the reference propagation of
width groups / alive-feature masks used as an oracle by several checks.

Nothing in this file imports plinio.
"""
from __future__ import annotations

import hashlib
import math
from typing import Any, Dict, List, Optional, Tuple

from hypothesis import strategies as st

# ----------------------------------------------------------------------------------------
# shape inference (pure python)
# ----------------------------------------------------------------------------------------
CONV_OPS = ('conv1d', 'conv2d')
LAYER_OPS = ('conv1d', 'conv2d', 'linear')
ELEMWISE = ('relu', 'relu6', 'dropout', 'identity', 'flatten_hw')   # channel-preserving, one input


def is_dw(node) -> bool:
    return node['op'] in CONV_OPS and node.get('groups', 1) > 1


def conv1d_out_len(L, k, d, s, pad):
    if pad == 'causal':
        Lp = L + (k - 1) * d
    elif pad == 'same':
        assert s == 1
        return L
    else:
        Lp = L
    return (Lp - (k - 1) * d - 1) // s + 1


def conv2d_out(hw, k, s, p, d=(1, 1)):
    return tuple((hw[i] + 2 * p[i] - d[i] * (k[i] - 1) - 1) // s[i] + 1 for i in range(2))


def infer_shapes(spec) -> Dict[str, Tuple[int, ...]]:
    """Returns shape without batch for every tensor id (inputs 'x', 'x1' and every node)."""
    sh: Dict[str, Tuple[int, ...]] = {}
    ins = spec['inputs']
    for i, s in enumerate(ins):
        sh['x' if i == 0 else f'x{i}'] = tuple(s)
    for n in spec['nodes']:
        a = [sh[i] for i in n['in']]
        op = n['op']
        if op == 'reuse':
            n = dict(node_by_id(spec, n['of']), id=n['id'], **{'in': n['in']})
            op = n['op']
        if op == 'conv1d':
            C, L = a[0]
            sh[n['id']] = (n['cout'], conv1d_out_len(L, n['k'], n['dil'], n['stride'], n['pad']))
        elif op == 'conv2d':
            C, H, W = a[0]
            k = tuple(n['k']) if isinstance(n['k'], (list, tuple)) else (n['k'], n['k'])
            p = tuple(n['p']) if isinstance(n['p'], (list, tuple)) else (n['p'], n['p'])
            d = tuple(n.get('dil', (1, 1))) if isinstance(n.get('dil', 1), (list, tuple)) else (
                n.get('dil', 1),) * 2
            s = (n['stride'], n['stride'])
            sh[n['id']] = (n['cout'],) + conv2d_out((H, W), k, s, p, d)
        elif op == 'linear':
            sh[n['id']] = (n['cout'],)
        elif op == 'flatten_hw':
            # x.flatten(2): (C, H, W) -> (C, H*W); the bridge from a 2-D to a 1-D trunk
            sh[n['id']] = (a[0][0], math.prod(a[0][1:]))
        elif op in ELEMWISE or op == 'bn':
            sh[n['id']] = a[0]
        elif op in ('avgpool', 'maxpool'):
            sh[n['id']] = (a[0][0],) + tuple(v // 2 for v in a[0][1:])
        elif op == 'gap':
            sh[n['id']] = (a[0][0],) + (1,) * (len(a[0]) - 1)
        elif op == 'add':
            assert all(x == a[0] for x in a), (n, a)
            sh[n['id']] = a[0]
        elif op == 'cat':
            assert all(x[1:] == a[0][1:] for x in a), (n, a)
            sh[n['id']] = (sum(x[0] for x in a),) + a[0][1:]
        elif op == 'cat_t':
            assert all(x[0] == a[0][0] and x[2:] == a[0][2:] for x in a), (n, a)
            sh[n['id']] = (a[0][0], sum(x[1] for x in a)) + a[0][2:]
        elif op == 'flatten':
            sh[n['id']] = (math.prod(a[0]),)
        elif op == 'squeeze':
            # squeeze the last dim (size 1)
            assert a[0][-1] == 1
            sh[n['id']] = a[0][:-1]
        elif op == 'snmodule':
            sh[n['id']] = (n['cout'],) + tuple(a[0][1:])
        else:
            raise ValueError(op)
        assert all(v >= 1 for v in sh[n['id']]), (n, sh[n['id']])
    return sh


def node_by_id(spec, nid):
    for n in spec['nodes']:
        if n['id'] == nid:
            return n
    raise KeyError(nid)


def resolve(spec, n):
    """For a reuse node, the node whose module is applied; identity otherwise."""
    return node_by_id(spec, n['of']) if n['op'] == 'reuse' else n


# ----------------------------------------------------------------------------------------
# builder
# ----------------------------------------------------------------------------------------
def _gen(wseed: int, name: str):
    import torch
    h = int(hashlib.sha1(f"{wseed}/{name}".encode()).hexdigest()[:12], 16)
    g = torch.Generator()
    g.manual_seed(h)
    return g


def init_module(m, wseed: int, name: str):
    """Deterministic non-degenerate initialisation of one leaf module from (wseed, name)."""
    import torch
    import torch.nn as nn
    g = _gen(wseed, name)
    with torch.no_grad():
        if isinstance(m, (nn.Conv1d, nn.Conv2d, nn.Linear)):
            fan_in = m.weight[0].numel()
            m.weight.copy_(torch.randn(m.weight.shape, generator=g) / math.sqrt(fan_in) * 1.5)
            if m.bias is not None:
                m.bias.copy_(torch.randn(m.bias.shape, generator=g) * 0.3 + 0.1)
        elif isinstance(m, (nn.BatchNorm1d, nn.BatchNorm2d)):
            # non-default hyper-parameters in half of the BatchNorms (1e-3 is the Keras default)
            m.eps = [1e-5, 1e-5, 1e-3, 1e-2][int(torch.randint(0, 4, (1,), generator=g))]
            m.momentum = [0.1, 0.1, 0.01, 0.5][int(torch.randint(0, 4, (1,), generator=g))]
            m.running_mean.copy_(torch.randn(m.running_mean.shape, generator=g) * 0.4)
            m.running_var.copy_(torch.rand(m.running_var.shape, generator=g) * 1.5 + 0.5)
            m.weight.copy_(torch.rand(m.weight.shape, generator=g) + 0.5)
            m.bias.copy_(torch.randn(m.bias.shape, generator=g) * 0.3)


def make_layer(node, cin: int, family: str):
    """Creates the plain torch modules of a node: dict suffix -> module ('' is the main one)."""
    import torch.nn as nn
    op = node['op']
    mods = {}
    if op == 'conv1d':
        k, d, s = node['k'], node['dil'], node['stride']
        if node['pad'] == 'causal':
            mods['_pad'] = nn.ConstantPad1d(((k - 1) * d, 0), 0.0)
            padding = 0
        elif node['pad'] == 'same':
            padding = 'same'
        else:
            padding = 0
        mods[''] = nn.Conv1d(cin, node['cout'], k, stride=s, padding=padding, dilation=d,
                             groups=node.get('groups', 1), bias=node['bias'])
        if node.get('bn'):
            mods['_bn'] = nn.BatchNorm1d(node['cout'])
    elif op == 'conv2d':
        k = tuple(node['k']) if isinstance(node['k'], (list, tuple)) else node['k']
        p = tuple(node['p']) if isinstance(node['p'], (list, tuple)) else node['p']
        d = node.get('dil', 1)
        d = tuple(d) if isinstance(d, (list, tuple)) else d
        mods[''] = nn.Conv2d(cin, node['cout'], k, stride=node['stride'], padding=p, dilation=d,
                             groups=node.get('groups', 1), bias=node['bias'])
        if node.get('bn'):
            mods['_bn'] = nn.BatchNorm2d(node['cout'])
    elif op == 'linear':
        mods[''] = nn.Linear(cin, node['cout'], bias=node['bias'])
        if node.get('bn'):
            mods['_bn'] = nn.BatchNorm1d(node['cout'])
    elif op == 'bn':
        mods[''] = nn.BatchNorm1d(cin) if family == '1d' else nn.BatchNorm2d(cin)
    elif op == 'relu' and node.get('variant', 'mod') == 'mod':
        mods[''] = nn.ReLU()
    elif op == 'relu6' and node.get('variant', 'mod') == 'mod':
        mods[''] = nn.ReLU6()
    elif op == 'dropout':
        mods[''] = nn.Dropout(0.3)
    elif op == 'identity':
        mods[''] = nn.Identity()
    elif op == 'avgpool':
        mods[''] = nn.AvgPool1d(2) if family == '1d' else nn.AvgPool2d(2)
    elif op == 'maxpool':
        mods[''] = nn.MaxPool1d(2) if family == '1d' else nn.MaxPool2d(2)
    elif op == 'gap':
        mods[''] = nn.AdaptiveAvgPool1d(1) if family == '1d' else nn.AdaptiveAvgPool2d(1)
    elif op == 'flatten' and node.get('variant', 'mod') == 'mod':
        mods[''] = nn.Flatten()
    elif op == 'flatten_hw' and node.get('variant', 'mod') == 'mod':
        mods[''] = nn.Flatten(2)
    return mods


def _forward_impl(self, env):
    import torch
    import torch.nn.functional as F
    for n in self.nodes:
        a = [env[i] for i in n['in']]
        nid = n['id']
        op = n['op']
        src = n
        if op == 'reuse':
            src = self.by_id[n['of']]
            op = src['op']
        sid = src['id']
        if op in ('conv1d', 'conv2d', 'linear'):
            t = a[0]
            if sid + '_pad' in self.layers:
                t = self.layers[sid + '_pad'](t)
            t = self.layers[sid](t)
            if sid + '_bn' in self.layers:
                t = self.layers[sid + '_bn'](t)
            env[nid] = t
        elif op in ('bn', 'dropout', 'identity', 'avgpool', 'maxpool', 'gap', 'snmodule'):
            env[nid] = self.layers[sid](a[0])
        elif op == 'relu':
            v = src.get('variant', 'mod')
            env[nid] = (self.layers[sid](a[0]) if v == 'mod' else
                        F.relu(a[0]) if v == 'F' else torch.relu(a[0]))
        elif op == 'relu6':
            v = src.get('variant', 'mod')
            env[nid] = self.layers[sid](a[0]) if v == 'mod' else F.relu6(a[0])
        elif op == 'add':
            if src.get('variant', 'op') == 'op':
                t = a[0] + a[1]
                for extra in a[2:]:
                    t = t + extra
            else:
                t = torch.add(a[0], a[1])
                for extra in a[2:]:
                    t = torch.add(t, extra)
            env[nid] = t
        elif op == 'cat':
            env[nid] = torch.cat(a, 1) if src.get('variant', 'pos') == 'pos' else torch.cat(a, dim=1)
        elif op == 'cat_t':
            env[nid] = torch.cat(a, dim=2)
        elif op == 'flatten':
            v = src.get('variant', 'mod')
            env[nid] = (self.layers[sid](a[0]) if v == 'mod' else
                        a[0].flatten(1) if v == 'method' else torch.flatten(a[0], 1))
        elif op == 'flatten_hw':
            v = src.get('variant', 'mod')
            env[nid] = (self.layers[sid](a[0]) if v == 'mod' else
                        a[0].flatten(2) if v == 'method' else torch.flatten(a[0], start_dim=2))
        elif op == 'squeeze':
            v = src.get('variant', 'method')
            dim = src.get('dim', -1)
            env[nid] = a[0].squeeze(dim) if v == 'method' else torch.squeeze(a[0], dim)
        else:
            raise ValueError(op)
    return env[self.out_id]


_net_classes = {}


def _classes():
    """nn.Module classes are created lazily so that importing this file does not import torch."""
    if _net_classes:
        return _net_classes
    import torch.nn as nn

    class GenNet(nn.Module):
        def __init__(self, spec, wseed, sn_factory=None):
            super().__init__()
            self.nodes = [dict(n) for n in spec['nodes']]
            self.by_id = {n['id']: n for n in self.nodes}
            self.out_id = spec['out']
            self.layers = nn.ModuleDict()
            shapes = infer_shapes(spec)
            fam = spec['family']
            for n in self.nodes:
                if n['op'] == 'reuse':
                    continue
                if n['op'] == 'snmodule':
                    self.layers[n['id']] = sn_factory(n, shapes[n['in'][0]], wseed)
                    continue
                cin = shapes[n['in'][0]][0]
                # 1-D / 2-D flavour of BN and pooling follows the rank of the tensor they get
                fam = '2d' if len(shapes[n['in'][0]]) == 3 else '1d'
                for suffix, m in make_layer(n, cin, fam).items():
                    init_module(m, wseed, n['id'] + suffix)
                    self.layers[n['id'] + suffix] = m

    class GenNet1(GenNet):
        def forward(self, x):
            return _forward_impl(self, {'x': x})

    class GenNet2(GenNet):
        def forward(self, x, x1):
            return _forward_impl(self, {'x': x, 'x1': x1})

    _net_classes.update(GenNet1=GenNet1, GenNet2=GenNet2)
    return _net_classes


def build(spec, wseed: int, sn_factory=None):
    c = _classes()
    cls = c['GenNet1'] if len(spec['inputs']) == 1 else c['GenNet2']
    net = cls(spec, wseed, sn_factory)
    net.eval()
    return net


def make_input(spec, xseed: int, batch: int = 2, scale: float = 1.0):
    import torch
    g = _gen(xseed, 'input')
    xs = [torch.randn((batch,) + tuple(s), generator=g) * scale for s in spec['inputs']]
    return xs[0] if len(xs) == 1 else tuple(xs)


def call(model, x):
    return model(*x) if isinstance(x, tuple) else model(x)


# ----------------------------------------------------------------------------------------
# reference width groups and alive masks
# ----------------------------------------------------------------------------------------
class UF:
    def __init__(self):
        self.p = {}

    def find(self, a):
        self.p.setdefault(a, a)
        while self.p[a] != a:
            self.p[a] = self.p[self.p[a]]
            a = self.p[a]
        return a

    def union(self, a, b):
        ra, rb = self.find(a), self.find(b)
        if ra != rb:
            self.p[max(ra, rb)] = min(ra, rb)


def width_groups(spec, fixed: Optional[set] = None):
    """Reference width-sharing analysis.

    Returns (group_of, frozen, members): group_of maps tensor id -> group representative;
    `frozen` is the set of representatives whose width is pinned by a network input/output or
    by a fixed (non-searchable) defining layer; members maps representative -> tensor ids.
    Only tensors whose width is a *channel axis variable* are grouped: the output of a
    channel-concat, of a flatten and of the tensors derived from them element-wise get
    their own 'derived' groups that never own a mask.
    """
    fixed = fixed or set()
    uf = UF()
    derived = set()   # tensors whose width is a function of other groups (cat / flatten)
    defining_fixed = set()
    for i in range(len(spec['inputs'])):
        uf.find('x' if i == 0 else f'x{i}')
    for n in spec['nodes']:
        nid = n['id']
        src = resolve(spec, n)
        op = src['op']
        uf.find(nid)
        if op in LAYER_OPS and not is_dw(src):
            if n['op'] == 'reuse':
                uf.union(nid, src['id'])     # same layer object -> same output width
            if src['id'] in fixed:
                defining_fixed.add(nid)
            continue
        if op in ('cat', 'flatten'):
            derived.add(nid)
            continue
        if op == 'squeeze' or op in ELEMWISE or op in ('bn', 'avgpool', 'maxpool', 'gap',
                                                       'snmodule') or is_dw(src):
            uf.union(nid, n['in'][0])
            if n['in'][0] in derived:
                derived.add(nid)
            continue
        if op in ('add', 'cat_t'):
            for i in n['in']:
                uf.union(nid, i)
            continue
        raise ValueError(op)
    group_of = {t: uf.find(t) for t in list(uf.p)}
    members: Dict[str, List[str]] = {}
    for t, g in group_of.items():
        members.setdefault(g, []).append(t)
    # pinned = width fixed by a network input/output or by a fixed (excluded) layer that produces
    # or consumes the tensor; propagated backwards through cat/flatten (their operands' widths
    # determine the derived width)
    pinned = set()
    for i in range(len(spec['inputs'])):
        pinned.add(group_of['x' if i == 0 else f'x{i}'])
    pinned.add(group_of[spec['out']])
    for n in spec['nodes']:
        src = resolve(spec, n)
        if src['id'] in fixed and src['op'] in LAYER_OPS + ('bn',):
            pinned.add(group_of[n['id']])
            for i in n['in']:
                pinned.add(group_of[i])
    changed = True
    while changed:
        changed = False
        for n in spec['nodes']:
            if n['op'] in ('cat', 'flatten') and group_of[n['id']] in pinned:
                for i in n['in']:
                    if group_of[i] not in pinned:
                        pinned.add(group_of[i])
                        changed = True
    frozen = set(pinned)
    for t in derived:
        frozen.add(group_of[t])   # derived widths never own a mask
    return group_of, frozen, members


def group_width(spec, shapes, g, members):
    return shapes[members[g][0]][0]


def searchable_groups(spec, fixed: Optional[set] = None):
    """Groups that own a trainable feature mask: {rep: width}; rep is a tensor id."""
    shapes = infer_shapes(spec)
    group_of, frozen, members = width_groups(spec, fixed)
    out = {}
    for g, mem in members.items():
        if g in frozen:
            continue
        # must contain the output of at least one searchable defining layer
        owners = [t for t in mem if t[0] == 'n' and resolve(spec, node_by_id(spec, t))['op']
                  in LAYER_OPS and not is_dw(resolve(spec, node_by_id(spec, t)))]
        if owners:
            out[g] = shapes[mem[0]][0]
    return out


def owner_groups(spec, fixed: Optional[set] = None):
    """All width groups that contain the output of at least one convertible (non-fixed) defining
    layer: {rep: (width, is_frozen)}.  Patterns are drawn for ALL of them; a correct
    implementation ignores what is written into the parameters of frozen groups."""
    shapes = infer_shapes(spec)
    fixed = fixed or set()
    group_of, frozen, members = width_groups(spec, fixed)
    out = {}
    for g, mem in members.items():
        owners = []
        for t in mem:
            if t[0] != 'n':
                continue
            src = resolve(spec, node_by_id(spec, t))
            if src['op'] in LAYER_OPS and not is_dw(src) and src['id'] not in fixed:
                owners.append(t)
        if owners:
            out[g] = (shapes[owners[0]][0], g in frozen)
    return out


def alive_masks(spec, group_masks: Dict[str, List[bool]], fixed: Optional[set] = None):
    """Reference alive-feature propagation.

    group_masks: representative -> list of bools (True = alive) for searchable groups; the last
    element is forced alive (keep-alive).  Returns (out_alive, in_alive): per tensor id the list of
    alive flags over its feature axis, and per node id the alive flags of the tensor feeding it.
    """
    shapes = infer_shapes(spec)
    group_of, frozen, members = width_groups(spec, fixed)
    sg = searchable_groups(spec, fixed)
    alive: Dict[str, List[bool]] = {}
    for i in range(len(spec['inputs'])):
        t = 'x' if i == 0 else f'x{i}'
        alive[t] = [True] * shapes[t][0]
    in_alive: Dict[str, List[bool]] = {}
    for n in spec['nodes']:
        nid = n['id']
        src = resolve(spec, n)
        op = src['op']
        a = [alive[i] for i in n['in']]
        in_alive[nid] = a[0] if op not in ('cat',) else sum(a, [])
        g = group_of[nid]
        if op in LAYER_OPS and not is_dw(src):
            if g in sg and src['id'] not in (fixed or set()):
                m = list(group_masks.get(g, [True] * sg[g]))
                m[-1] = True
                alive[nid] = m
            else:
                alive[nid] = [True] * shapes[nid][0]
        elif op == 'cat':
            alive[nid] = sum(a, [])
        elif op == 'flatten':
            mult = math.prod(shapes[n['in'][0]][1:])
            alive[nid] = [b for b in a[0] for _ in range(mult)]
        else:
            alive[nid] = list(a[0])
    return alive, in_alive


# ----------------------------------------------------------------------------------------
# Hypothesis strategies: series-parallel construction
# ----------------------------------------------------------------------------------------
class Profile:
    """What the generated nets may contain."""

    def __init__(self, family='1d', pads=('causal',), standalone_bn=False, cat=True, cat_t=True,
                 add=True, dw=True, flatten=True, exclude=False, reuse=False, multi_input=False,
                 max_blocks=4, max_c=6, kmax=9, bn=True, pool=True, two_d_k=(1, 3, 5),
                 linear_tail=True, strides=(1, 2), dil=(1, 2, 3), cat_input=True,
                 conv2d_pad0=True, act_variants=True, min_blocks=1, first_conv=False,
                 dropout=True, bridge=False, fixtures=False, dil2d=(1, 1, 1, 2, 3),
                 exclude_propagating=False):
        self.__dict__.update(locals())
        del self.__dict__['self']


class _B:
    """Incremental builder used inside the composite strategy."""

    def __init__(self, draw, prof: Profile, inputs):
        self.draw = draw
        self.p = prof
        self.nodes: List[Dict[str, Any]] = []
        self.shapes: Dict[str, Tuple[int, ...]] = {}
        self.kind: Dict[str, str] = {}      # 'chan' | 'flat' | 'vec'
        self.derived: Dict[str, bool] = {}  # width derived from cat/flatten (cannot be add operand)
        self.inputs = inputs
        for i, s in enumerate(inputs):
            t = 'x' if i == 0 else f'x{i}'
            self.shapes[t] = tuple(s)
            self.kind[t] = 'chan' if len(s) > 1 else 'vec'
            self.derived[t] = False
        self.excluded: List[str] = []

    def add(self, op, ins, **kw):
        nid = f"n{len(self.nodes)}"
        node = {'id': nid, 'op': op, 'in': list(ins), **kw}
        self.nodes.append(node)
        spec = {'family': self.p.family, 'inputs': self.inputs, 'nodes': self.nodes, 'out': nid}
        self.shapes = infer_shapes(spec)
        self.kind[nid] = ('vec' if op == 'linear' else 'flat' if op in ('flatten',) else
                          self.kind[ins[0]])
        if op == 'squeeze' and len(self.shapes[nid]) == 1:
            self.kind[nid] = 'flat'
        self.derived[nid] = (op in ('cat', 'flatten') or
                             (op not in LAYER_OPS and any(self.derived[i] for i in ins)) or
                             (op in CONV_OPS and kw.get('groups', 1) > 1 and self.derived[ins[0]]))
        if op in LAYER_OPS and kw.get('groups', 1) == 1:
            self.derived[nid] = False
        return nid

    # -- primitive draws
    def conv(self, t, cout=None, keep_shape=False, allow_dw=True, allow_stride=True,
             allow_excl=True, force_bn=None):
        d, p = self.draw, self.p
        C = self.shapes[t][0]
        dw = allow_dw and p.dw and C > 1 and not self.derived[t] and d(st.integers(0, 5)) == 0
        if cout is None:
            cout = C if dw else d(st.integers(1, p.max_c))
        elif dw and cout != C:
            dw = False
        bias = d(st.booleans())
        bn = (p.bn and d(st.integers(0, 2)) == 0) if force_bn is None else force_bn
        kw = dict(cout=cout, bias=bias, bn=bn, groups=C if dw else 1)
        if p.exclude and allow_excl and d(st.integers(0, 4)) == 0 and \
                (not dw or (p.exclude_propagating and d(st.booleans()))):
            # (a depthwise layer excluded by name stays a plain grouped convolution of fixed width)
            kw['excl'] = True
        if len(self.shapes[t]) == 2:
            L = self.shapes[t][1]
            pad = d(st.sampled_from(p.pads))
            stride = 1
            if allow_stride and not keep_shape and pad != 'same' and L >= 4 and 2 in p.strides \
                    and d(st.integers(0, 4)) == 0:
                stride = 2
            if pad == 'none':
                k, dil = 1, 1
            elif pad == 'valid':
                # un-padded convolution with a real kernel (the output gets shorter); only where
                # the sequence is long enough and the shape need not be kept
                if keep_shape or L < 5:
                    pad, k, dil = 'none', 1, 1
                else:
                    k = d(st.integers(2, min(p.kmax, (L - 1) // 2 + 1)))
                    dil = 1 if (k - 1) * 2 >= L else d(st.sampled_from([1, 1, 2]))
                    while (k - 1) * dil >= L:
                        dil = 1
                        k -= 1
            else:
                k = d(st.integers(1, p.kmax))
                dil = d(st.sampled_from(p.dil))
            return self.add('conv1d', [t], k=k, dil=dil, stride=stride, pad=pad, **kw)
        else:
            H, W = self.shapes[t][1:]
            ks = [k for k in p.two_d_k if k <= min(H, W) or True]
            k = d(st.sampled_from(ks))
            pad = k // 2
            if p.conv2d_pad0 and not keep_shape and k > 1 and min(H, W) >= k + 1 and \
                    d(st.integers(0, 4)) == 0:
                pad = 0
            stride = 1
            if allow_stride and not keep_shape and min(H, W) >= 4 and 2 in p.strides and \
                    d(st.integers(0, 4)) == 0:
                stride = 2
            if k > 1 and pad > 0 and len(p.dil2d) > 1:
                # a dilated 2-D convolution (same-padded: pad = dil * (k // 2) keeps the shape)
                dil = d(st.sampled_from(p.dil2d))
                if dil > 1:
                    return self.add('conv2d', [t], k=k, p=pad * dil, stride=stride, dil=dil, **kw)
            return self.add('conv2d', [t], k=k, p=pad, stride=stride, **kw)

    def act(self, t):
        d = self.draw
        choice = d(st.integers(0, 5 if self.p.dropout else 4))
        if choice <= 2:
            v = d(st.sampled_from(['mod', 'F', 'torch'])) if self.p.act_variants else 'mod'
            return self.add('relu', [t], variant=v)
        if choice == 3:
            v = d(st.sampled_from(['mod', 'F'])) if self.p.act_variants else 'mod'
            return self.add('relu6', [t], variant=v)
        if choice == 4:
            return self.add('identity', [t])
        return self.add('dropout', [t])

    def maybe_act(self, t):
        return self.act(t) if self.draw(st.booleans()) else t


def _fixtures(family: str, pad: str = 'causal'):
    """Hand-written concat topologies that the series-parallel generator reaches only rarely
    (nested channel concatenations, also reaching the output)."""
    def conv(i, src, cout, **kw):
        if family == '1d':
            return dict({'id': i, 'op': 'conv1d', 'in': [src], 'k': 3, 'dil': 1, 'stride': 1,
                         'pad': pad, 'cout': cout, 'bias': True, 'bn': False, 'groups': 1}, **kw)
        return dict({'id': i, 'op': 'conv2d', 'in': [src], 'k': 3, 'p': 1, 'stride': 1, 'cout': cout,
                     'bias': True, 'bn': False, 'groups': 1}, **kw)
    inp = [[2, 9]] if family == '1d' else [[2, 5, 5]]
    relu = lambda i, src: {'id': i, 'op': 'relu', 'in': [src], 'variant': 'mod'}   # noqa
    cat = lambda i, ops: {'id': i, 'op': 'cat', 'in': ops, 'variant': 'pos'}       # noqa
    out = []
    # nested concatenation reaching the output: cat(relu(cat(c0, c1)), c2)
    out.append([conv('n0', 'x', 4), conv('n1', 'x', 3), cat('n2', ['n0', 'n1']), relu('n3', 'n2'),
                conv('n4', 'x', 2), cat('n5', ['n3', 'n4'])])
    # the same, consumed by a layer
    out.append(out[0] + [conv('n6', 'n5', 3)])
    # three levels, with the network input as an operand, reaching the output
    out.append([conv('n0', 'x', 3), cat('n1', ['n0', 'x']), conv('n2', 'n1', 2),
                cat('n3', ['n1', 'n2']), relu('n4', 'n3'), conv('n5', 'n4', 3),
                cat('n6', ['n4', 'n5'])])
    # (a residual sum with a concatenation as operand is outside the supported patterns: the
    # generator never builds one either, see DESIGN 6)
    # concatenation of two concatenations, consumed by a layer
    out.append([conv('n0', 'x', 2), conv('n1', 'x', 3), cat('n2', ['n0', 'n1']),
                conv('n3', 'x', 2), cat('n4', ['n3', 'n0']), cat('n5', ['n2', 'n4']),
                conv('n6', 'n5', 3)])
    # a small MLP head: hidden Linear layers (with bias) whose outputs can be pruned
    lin = lambda i, src, cout, **kw: dict({'id': i, 'op': 'linear', 'in': [src], 'cout': cout,   # noqa
                                           'bias': True, 'bn': False}, **kw)
    out.append([conv('n0', 'x', 3), relu('n1', 'n0'),
                {'id': 'n2', 'op': 'flatten', 'in': ['n1'], 'variant': 'mod'},
                lin('n3', 'n2', 6), relu('n4', 'n3'), lin('n5', 'n4', 5, bn=True), relu('n6', 'n5'),
                lin('n7', 'n6', 2)])
    # two DIFFERENT views of one producer concatenated (both operands carry the same calculator
    # object through the features-propagating ops), also with a third operand / of the input
    relu6 = lambda i, src: {'id': i, 'op': 'relu6', 'in': [src], 'variant': 'mod'}   # noqa
    out.append([conv('n0', 'x', 4), relu('n1', 'n0'), relu6('n2', 'n0'), cat('n3', ['n1', 'n2']),
                conv('n4', 'n3', 3)])
    out.append([conv('n0', 'x', 3), relu('n1', 'n0'), conv('n2', 'x', 2),
                cat('n3', ['n0', 'n1', 'n2']), conv('n4', 'n3', 3)])
    out.append([relu('n0', 'x'), cat('n1', ['x', 'n0']), conv('n2', 'n1', 3), relu('n3', 'n2'),
                conv('n4', 'n3', 2)])
    # a depthwise layer excluded from the search by name between two searchable layers (it stays
    # a plain grouped convolution of fixed width, which pins the width of its producer)
    out.append([conv('n0', 'x', 4), relu('n1', 'n0'), conv('n2', 'n1', 4, groups=4, excl=True),
                conv('n3', 'n2', 3), relu('n4', 'n3'), conv('n5', 'n4', 2)])
    # a true MLP: the flatten merges the axes of the NETWORK INPUT (constant features), then
    # searchable Linear layers - and the same behind a pooling of the input
    flat = lambda i, src, v: {'id': i, 'op': 'flatten', 'in': [src], 'variant': v}   # noqa
    out.append([flat('n0', 'x', 'mod'), lin('n1', 'n0', 6), relu('n2', 'n1'),
                lin('n3', 'n2', 5, bn=True), relu('n4', 'n3'), lin('n5', 'n4', 2)])
    out.append([{'id': 'n0', 'op': 'avgpool', 'in': ['x']}, flat('n1', 'n0', 'method'),
                lin('n2', 'n1', 4), relu('n3', 'n2'), lin('n4', 'n3', 3)])
    return [{'family': family, 'inputs': inp, 'nodes': nodes, 'out': nodes[-1]['id']}
            for nodes in out]


@st.composite
def netspecs(draw, prof: Profile):
    p = prof
    if p.fixtures and draw(st.integers(0, 7)) == 0:
        import copy as _copy
        fx = [f for f in _fixtures(p.family, 'causal' if 'causal' in p.pads else p.pads[0])
              if (p.cat or not any(n['op'] == 'cat' for n in f['nodes'])) and
              (p.exclude or not any(n.get('excl') for n in f['nodes'])) and
              (p.bn or not any(n.get('bn') for n in f['nodes']))]
        return _copy.deepcopy(draw(st.sampled_from(fx)))
    if p.family == '1d':
        inp = [draw(st.integers(1, 4)), draw(st.integers(6, 16))]
    else:
        inp = [draw(st.integers(1, 3)), draw(st.integers(5, 10)), draw(st.integers(5, 10))]
    inputs = [inp]
    two_in = p.multi_input and draw(st.integers(0, 3)) == 0
    if two_in:
        inputs.append(list(inp))
    b = _B(draw, p, inputs)
    t = 'x'
    if two_in:
        # consume the second input early: cat or add of two stems
        a1 = b.conv('x', allow_stride=False, allow_dw=False, keep_shape=True)
        c1 = b.shapes[a1][0]
        a2 = b.conv('x1', cout=c1, allow_stride=False, allow_dw=False, keep_shape=True)
        if b.shapes[a1] == b.shapes[a2] and draw(st.booleans()) and p.add:
            t = b.add('add', [a1, a2], variant=draw(st.sampled_from(['op', 'torch'])))
        elif b.shapes[a1][1:] == b.shapes[a2][1:] and p.cat:
            t = b.add('cat', [a1, a2], variant='pos')
        else:
            # shapes differ only if padding differs; fall back to flatten-free sum via same conv
            a2 = b.add('reuse', ['x1'], of=a1)
            t = b.add('add', [a1, a2], variant='op')
    elif p.first_conv:
        t = b.conv(t, allow_dw=False)
    nblocks = draw(st.integers(p.min_blocks, p.max_blocks))
    flat = False
    for bi in range(nblocks):
        if b.kind[t] != 'chan':
            flat = True
        if flat:
            # vector region: linear / act / residual-linear
            c = draw(st.integers(0, 3))
            if c <= 1 or b.kind[t] == 'flat':
                t = b.add('linear', [t], cout=draw(st.integers(1, 8)), bias=draw(st.booleans()),
                          bn=p.bn and draw(st.integers(0, 3)) == 0)
                t = b.maybe_act(t)
            elif c == 2 and p.add:
                w = b.shapes[t][0]
                l1 = b.add('linear', [t], cout=w, bias=draw(st.booleans()), bn=False)
                l1 = b.maybe_act(l1)
                if b.derived[t]:
                    l2 = b.add('linear', [t], cout=w, bias=draw(st.booleans()), bn=False)
                    t = b.add('add', [l1, l2], variant='op')
                else:
                    t = b.add('add', [t, l1], variant=draw(st.sampled_from(['op', 'torch'])))
            else:
                t = b.act(t)
            continue
        spatial = b.shapes[t][1:]
        choices = ['layer', 'layer', 'act']
        if p.pool and min(spatial) >= 4:
            choices.append('pool')
        if p.add:
            choices += ['res_id', 'res_proj']
        if p.cat:
            choices += ['cat', 'cat']
        if p.cat_t and len(b.shapes[t]) == 2:
            choices.append('cat_t')
        if p.bridge and len(b.shapes[t]) == 3:
            choices.append('bridge')
        if p.standalone_bn:
            choices.append('bn')
        if p.reuse:
            choices.append('reuse')
        if p.flatten and bi >= 1:
            choices.append('flatten')
        kind = draw(st.sampled_from(choices))
        if kind == 'layer':
            t = b.conv(t)
            t = b.maybe_act(t)
        elif kind == 'act':
            t = b.act(t)
        elif kind == 'bridge':
            # 2-D trunk -> 1-D trunk: only the spatial axes are merged, channels stay channels
            if draw(st.booleans()):
                t = b.add('flatten_hw', [t],
                          variant=draw(st.sampled_from(['mod', 'method', 'torch'])))
            else:
                # ... or the width is collapsed by a (1, W) convolution and the unit axis dropped
                W = b.shapes[t][2]
                c = b.add('conv2d', [t], k=[1, W], p=[0, 0], stride=1,
                          cout=draw(st.integers(1, p.max_c)), bias=draw(st.booleans()),
                          bn=p.bn and draw(st.integers(0, 2)) == 0, groups=1)
                c = b.maybe_act(c)
                t = b.add('squeeze', [c], dim=draw(st.sampled_from([-1, 3])),
                          variant=draw(st.sampled_from(['method', 'torch'])))
        elif kind == 'pool':
            t = b.add(draw(st.sampled_from(['avgpool', 'maxpool'])), [t])
        elif kind == 'bn':
            # a BN directly after a conv/linear would be fused (it is then not stand-alone, and a
            # second BN right behind a fused one is outside the supported patterns)
            prod = None if t.startswith('x') else node_by_id({'nodes': b.nodes}, t)
            if prod is None or prod['op'] in LAYER_OPS + ('reuse', 'bn'):
                t = b.act(t)
            t = b.add('bn', [t])
        elif kind == 'res_id':
            # t' = t + f(t), f keeps the shape; t must have a maskable / frozen channel width
            if b.derived[t]:
                t = b.conv(t, allow_dw=False)
            C = b.shapes[t][0]
            f = b.conv(t, keep_shape=True, allow_stride=False, allow_excl=False)
            f = b.maybe_act(f)
            f = b.conv(f, cout=C, keep_shape=True, allow_stride=False, allow_excl=False)
            if b.shapes[f] != b.shapes[t]:
                t = f
            else:
                ops = [t, f] if draw(st.booleans()) else [f, t]
                t = b.add('add', ops, variant=draw(st.sampled_from(['op', 'torch'])))
                t = b.maybe_act(t)
        elif kind == 'res_proj':
            c = draw(st.integers(1, p.max_c))
            a1 = b.conv(t, cout=c, keep_shape=True, allow_stride=False, allow_dw=False,
                        allow_excl=False)
            a2 = b.conv(t, cout=c, keep_shape=True, allow_stride=False, allow_dw=False,
                        allow_excl=False)
            ops = [a1, a2]
            if draw(st.integers(0, 2)) == 0:
                a3 = b.conv(a2, cout=c, keep_shape=True, allow_stride=False, allow_excl=False)
                ops.append(a3)
            if all(b.shapes[o] == b.shapes[ops[0]] for o in ops):
                t = b.add('add', ops, variant=draw(st.sampled_from(['op', 'torch'])))
            else:
                t = ops[-1]
            t = b.maybe_act(t)
        elif kind == 'cat':
            nbr = draw(st.integers(2, 3))
            ops = []
            for bi_ in range(nbr):
                # the first operand always derives from t so that no node is left dead; the same
                # tensor never appears twice (fx's all_input_nodes would deduplicate it)
                origin = draw(st.sampled_from(['search', 'search', 'fixed', 'same'] +
                                              (['input'] if bi_ > 0 else [])))
                if origin == 'input' and p.cat_input and b.shapes['x'][1:] == spatial \
                        and 'x' not in ops:
                    ops.append('x')
                elif origin == 'same' and t not in ops:
                    ops.append(t)
                elif origin == 'fixed' and p.exclude:
                    o = b.conv(t, keep_shape=True, allow_stride=False, allow_dw=False,
                               allow_excl=False)
                    b.nodes[-1]['excl'] = True
                    ops.append(b.maybe_act(o))
                else:
                    o = b.conv(t, keep_shape=True, allow_stride=False, allow_excl=False)
                    ops.append(b.maybe_act(o))
            if all(b.shapes[o][1:] == b.shapes[ops[0]][1:] for o in ops):
                t = b.add('cat', ops, variant=draw(st.sampled_from(['pos', 'kw'])))
            else:
                t = ops[-1]
        elif kind == 'cat_t':
            if b.derived[t]:
                t = b.conv(t, allow_dw=False)
            c = draw(st.integers(1, p.max_c))
            a1 = b.conv(t, cout=c, allow_dw=False, allow_excl=False)
            a2 = b.conv(t, cout=c, allow_dw=False, allow_excl=False)
            t = b.add('cat_t', [a1, a2])
        elif kind == 'reuse':
            # one layer object applied twice, residual style, so that the tensors it consumes and
            # produces at both call sites all belong to ONE width group (PIT keeps a single
            # input-features calculator per layer object):  a1 = t + l(t);  a2 = a1 + l(a1)
            if b.derived[t]:
                t = b.conv(t, allow_dw=False)
            C = b.shapes[t][0]
            l = b.conv(t, cout=C, keep_shape=True, allow_stride=False, allow_dw=False,
                       allow_excl=False, force_bn=False)
            if b.shapes[l] == b.shapes[t]:
                a1 = b.add('add', [t, l], variant='op')
                a1 = b.maybe_act(a1)
                if p.pool and min(b.shapes[a1][1:]) >= 4 and draw(st.booleans()):
                    # the second invocation works at another resolution (same layer object,
                    # different output shape)
                    a1 = b.add(draw(st.sampled_from(['avgpool', 'maxpool'])), [a1])
                r = b.add('reuse', [a1], of=l)
                t = b.add('add', [a1, r], variant=draw(st.sampled_from(['op', 'torch'])))
            else:
                t = l
        elif kind == 'flatten':
            how = draw(st.sampled_from(['flatten', 'gap_flatten', 'gap_squeeze']))
            if how != 'flatten':
                t = b.add('gap', [t])
            if how == 'gap_squeeze' and len(b.shapes[t]) == 2:
                t = b.add('squeeze', [t], dim=draw(st.sampled_from([-1, 2])),
                          variant=draw(st.sampled_from(['method', 'torch'])))
            else:
                t = b.add('flatten', [t], variant=draw(st.sampled_from(['mod', 'method', 'torch'])))
            flat = True
    if p.linear_tail and b.kind[t] == 'chan' and draw(st.booleans()):
        t = b.add('gap', [t])
        t = b.add('flatten', [t], variant=draw(st.sampled_from(['mod', 'method', 'torch'])))
        t = b.add('linear', [t], cout=draw(st.integers(1, 6)), bias=draw(st.booleans()), bn=False)
    elif b.kind[t] == 'flat':
        t = b.add('linear', [t], cout=draw(st.integers(1, 6)), bias=draw(st.booleans()), bn=False)
    if not any(n['op'] in LAYER_OPS for n in b.nodes):
        # a network needs at least one layer with parameters
        t = b.conv(t, allow_dw=False) if b.kind[t] == 'chan' else b.add(
            'linear', [t], cout=draw(st.integers(1, 6)), bias=True, bn=False)
    spec = {'family': p.family, 'inputs': inputs, 'nodes': b.nodes, 'out': t}
    return spec


def spec_features(spec) -> List[str]:
    """Labels describing what a spec contains (for the event histogram)."""
    ops = [n['op'] for n in spec['nodes']]
    ev = []
    for o in ('add', 'cat', 'cat_t', 'flatten', 'flatten_hw', 'squeeze', 'reuse', 'bn', 'linear', 'avgpool',
              'maxpool'):
        if o in ops:
            ev.append('has:' + o)
    if any(is_dw(n) for n in spec['nodes']):
        ev.append('has:dw')
    if any(n.get('bn') for n in spec['nodes']):
        ev.append('has:fused-bn')
    if any(n.get('excl') for n in spec['nodes']):
        ev.append('has:excluded')
    if any(n['op'] == 'conv1d' and n['stride'] == 2 for n in spec['nodes']):
        ev.append('has:stride2')
    if len(spec['inputs']) > 1:
        ev.append('has:two-inputs')
    return ev
