"""C19 - regularizers are non-negative penalties that vanish when constraints hold."""
from __future__ import annotations

import math

from hypothesis import strategies as st

from .. import masks as mk
from .. import netgen as ng
from .. import pitutil as pu
from ..core import Check, Part, Result, must, safe_grad

REL = 1e-5


class Stub:
    """A DNAS stand-in whose named costs are controllable tensors."""

    def __init__(self, costs):
        import torch
        self.t = {k: torch.tensor(float(v), requires_grad=True) for k, v in costs.items()}

    def get_cost(self, name=None):
        return self.t[name] * 1.0


class KeepStub(Stub):
    """A model that computes its (constant) costs once and hands out the tensors it keeps."""

    def __init__(self, costs):
        super().__init__(costs)
        self.kept = {k: v * 1.0 for k, v in self.t.items()}

    def get_cost(self, name=None):
        return self.kept[name]


def _close(a, b, rel=REL):
    return abs(a - b) <= rel * max(abs(a), abs(b), 1e-30)


# ----------------------------------------------------------------------------------------
# DUCCIO on stub models
# ----------------------------------------------------------------------------------------
pos = st.floats(min_value=1e-3, max_value=1e6, allow_nan=False)


@st.composite
def duccio_cases(draw):
    n = draw(st.integers(1, 3))
    # metric names as users write them, in any (usually not alphabetical) order
    names = list(draw(st.permutations(['params', 'ops', 'latency', 'energy', 'size'])))[:n]
    targets = [draw(pos) for _ in names]
    given = draw(st.booleans())
    # derived strengths are positive only if every initial cost exceeds its target (premise)
    rel = [draw(st.sampled_from(['above', 'above', 'at', 'below'] if given else ['above']))
           for _ in names]
    costs = []
    for t, r in zip(targets, rel):
        f = draw(st.floats(min_value=0.01, max_value=3.0))
        costs.append(t * (1 + f) if r == 'above' else t if r == 'at' else t * max(0.0, 1 - f))
    ne = draw(st.integers(1, 50))
    return {'names': names, 'targets': targets, 'costs': costs, 'rel': rel,
            'strengths': [draw(pos) for _ in names] if given else None,
            'task_loss': None if given else draw(st.floats(min_value=1e-3, max_value=10.0)),
            'n_epochs': ne, 'epoch': draw(st.integers(0, ne)),
            'bump': draw(st.floats(min_value=0.01, max_value=2.0))}


def oracle_duccio(case) -> Result:
    import torch
    from plinio.regularizers import DUCCIO
    res = Result()
    names, targets, costs = case['names'], case['targets'], case['costs']
    f32 = [float(torch.tensor(c, dtype=torch.float32)) for c in costs]
    t32 = [float(torch.tensor(t, dtype=torch.float32)) for t in targets]
    above = [c > t for c, t in zip(f32, t32)]
    derived = case['strengths'] is None
    if derived and not all(above):
        # derived strengths are finite and positive only when every initial cost exceeds its
        # target (the property's premise 'positive final strengths')
        res.discarded = 'derived-strength-not-positive'
        return res

    def make():
        tg = {n: torch.tensor(t, dtype=torch.float32) for n, t in zip(names, targets)}
        if derived:
            return DUCCIO(tg, task_loss=torch.tensor(case['task_loss'], dtype=torch.float32))
        return DUCCIO(tg, final_strengths=tuple(torch.tensor(s, dtype=torch.float32)
                                                for s in case['strengths']))
    model = Stub(dict(zip(names, costs)))
    reg = make()
    v = must(res, 'duccio', reg, model, case['epoch'], case['n_epochs'])
    if v is None:
        return res
    val = float(v)
    if derived:
        s = [case['task_loss'] / (c - t) for c, t in zip(f32, t32)]
        if reg.final_strengths is None:
            res.bad('derived-strengths-not-fixed-at-the-first-call')
            return res
        got = [float(x) for x in reg.final_strengths]
        if any(not _close(a, b, 1e-4) for a, b in zip(got, s)):
            res.bad('derived-strength-differs-from-task-loss-over-excess', got=got, want=s)
    else:
        s = [float(torch.tensor(x, dtype=torch.float32)) for x in case['strengths']]
    ramp = min(1.0, 0.01 + 0.99 * case['epoch'] / (case['n_epochs'] / 2))
    ref = sum(si * ramp * max(0.0, c - t) for si, c, t in zip(s, f32, t32))
    if not math.isfinite(val) or val < 0:
        res.bad('penalty-negative-or-non-finite', value=val)
        return res
    if (val == 0) != (not any(above)):
        res.bad('penalty-zero-iff-all-constraints-hold', value=val, above=above)
    if not _close(val, ref, 1e-4) and not (ref == 0 and val == 0):
        res.bad('penalty-differs-from-reference', value=val, reference=ref, ramp=ramp)
    # grows with each excess: bump one cost that is (or becomes) above target
    for i, n in enumerate(names):
        m2 = Stub({k: (c if k != n else max(c, targets[i]) * (1 + case['bump']))
                   for k, c in zip(names, costs)})
        v2 = float(make_fixed(reg, make)(m2, case['epoch'], case['n_epochs']))
        if derived:
            # strengths derived from the task loss are fixed by the FIRST call: a later call of
            # the same object on a model whose cost moved uses them unchanged
            v2_same = float(reg(m2, case['epoch'], case['n_epochs']))
            if not _close(v2_same, v2, 1e-5) and not (v2 == 0 and v2_same == 0):
                res.bad('later-call-does-not-use-the-strengths-fixed-at-the-first-call',
                        metric=n, same_object=v2_same, fixed_strengths=v2)
        new_c = float(torch.tensor(max(costs[i], targets[i]) * (1 + case['bump']),
                                   dtype=torch.float32))
        inc = s[i] * ramp * (max(0.0, new_c - t32[i]) - max(0.0, f32[i] - t32[i]))
        # strict growth is required whenever the increment is representable next to the total
        if (inc > 1e-4 * max(val, 1e-30) and not v2 > val) or v2 < val * (1 - 1e-6):
            res.bad('penalty-does-not-grow-with-excess', metric=n, before=val, after=v2,
                    expected_increment=inc)
    # gradient w.r.t. the constrained costs: effective strength where above target, else 0
    g = torch.autograd.grad(v, [model.t[n] for n in names], allow_unused=True) if v.requires_grad \
        else [None] * len(names)
    for i, gi in enumerate(g):
        if f32[i] == t32[i]:
            continue            # exactly at the target only a sub-gradient exists
        want = s[i] * ramp if above[i] else 0.0
        got = 0.0 if gi is None else float(gi)
        if not _close(got, want, 1e-4) and not (want == 0 and got == 0):
            res.bad('gradient-differs-from-effective-strength', metric=names[i], got=got, want=want)
    res.nontrivial = any(above)
    res.ev('derived-strengths' if derived else 'given-strengths', f"metrics:{len(names)}",
           'epoch0' if case['epoch'] == 0 else
           'second-half' if case['epoch'] >= case['n_epochs'] / 2 else 'ramping',
           *[f"rel:{r}" for r in set(case['rel'])])
    res.obs = {'value': val, 'reference': ref, 'ramp': ramp}
    return res


def make_fixed(reg, make):
    """A regularizer with the same (possibly derived, already frozen) final strengths."""
    from plinio.regularizers import DUCCIO
    return DUCCIO(reg.targets, final_strengths=tuple(reg.final_strengths))


# ----------------------------------------------------------------------------------------
# schedule: exhaustive (n_epochs, epoch)
# ----------------------------------------------------------------------------------------
def enum_schedule(tier):
    for ne in range(1, 51):
        yield {'n_epochs': ne, 'strength': 0.37 * ne, 'excess': 3.0 + ne}


def oracle_schedule(case) -> Result:
    import torch
    from plinio.regularizers import DUCCIO
    res = Result()
    ne, s, ex = case['n_epochs'], case['strength'], case['excess']
    s32 = float(torch.tensor(s, dtype=torch.float32))
    reg = DUCCIO({'c': torch.tensor(10.0)}, final_strengths=(torch.tensor(s, dtype=torch.float32),))
    model = Stub({'c': 10.0 + ex})
    prev = None
    for epoch in range(0, ne + 1):
        eff = float(reg(model, epoch, ne)) / ex
        if not math.isfinite(eff) or eff < 0:
            res.bad('effective-strength-non-finite', epoch=epoch, n_epochs=ne)
            return res
        if prev is not None and eff < prev * (1 - 1e-6):
            res.bad('effective-strength-decreases-with-epoch', epoch=epoch, n_epochs=ne,
                    before=prev, after=eff)
        if eff > s32 * (1 + 1e-6):
            res.bad('effective-strength-exceeds-final', epoch=epoch, n_epochs=ne, eff=eff, final=s32)
        if epoch == 0 and not _close(eff, 0.01 * s32):
            res.bad('effective-strength-at-epoch-0-not-one-percent', n_epochs=ne, eff=eff,
                    final=s32)
        if epoch >= ne / 2 and not _close(eff, s32):
            res.bad('final-strength-not-reached-at-half-schedule', epoch=epoch, n_epochs=ne,
                    eff=eff, final=s32)
        prev = eff
    # default arguments use the final strength directly
    eff = float(reg(model)) / ex
    if not _close(eff, s32):
        res.bad('default-call-does-not-use-final-strength', eff=eff, final=s32)
    # the effective strength is a function of the schedule position (epoch, n_epochs) only: the
    # same object asked about two interleaved schedules answers each with its own ramp
    for ne2 in sorted({3 * ne + 1, max(1, ne // 3), ne + 1}):
        for epoch in range(0, min(ne, ne2) + 1):
            for n_ep in (ne, ne2):
                eff = float(reg(model, epoch, n_ep)) / ex
                want = s32 * min(1.0, 0.01 + 0.99 * epoch / (n_ep / 2))
                if not _close(eff, want, 1e-4):
                    res.bad('effective-strength-depends-on-earlier-calls', epoch=epoch,
                            n_epochs=n_ep, other_schedule=(ne2 if n_ep == ne else ne), eff=eff,
                            schedule_value=want)
                    return res
    res.nontrivial = ne >= 2
    res.obs = {'n_epochs': ne}
    return res


# ----------------------------------------------------------------------------------------
# BaseRegularizer (stub and real PIT models) and DUCCIO on real PIT models
# ----------------------------------------------------------------------------------------
@st.composite
def real_cases(draw):
    spec = draw(ng.netspecs(ng.Profile(family=draw(st.sampled_from(['1d', '2d'])),
                                       pads=('causal', 'same'), max_blocks=3, min_blocks=2,
                                       fixtures=True, exclude=True)))
    masks = draw(mk.pit_masks(spec, pu.fixed_ids(spec)))
    return {'spec': spec, 'masks': masks, 'wseed': draw(st.integers(0, 20)),
            'vseed': draw(st.integers(0, 20)), 'strength': draw(pos),
            'metric': draw(st.sampled_from(['params', 'ops'])),
            # the target is often the cost the model has right now (read once, before the
            # regularizer is called): the penalty must then be exactly zero
            'target_frac': draw(st.one_of(st.floats(min_value=0.1, max_value=1.5), st.just(1.0))),
            'full_cost': draw(st.booleans()),
            'n_epochs': draw(st.integers(1, 50)), 'epoch_frac': draw(st.floats(0, 1)),
            'discrete': draw(st.booleans())}


def oracle_real(case) -> Result:
    import torch
    import plinio.cost as pc
    from plinio.regularizers import BaseRegularizer, DUCCIO
    res = Result()
    spec = case['spec']
    net, pit, x0 = pu.build_pit(spec, case['wseed'], cost={'params': pc.params, 'ops': pc.ops},
                                discrete_cost=case['discrete'],
                                full_cost=bool(case.get('full_cost', False)))
    pit.train_nas_only()
    mk.apply_pit_masks(pit, spec, case['masks'], case['vseed'], pu.fixed_ids(spec))
    name = case['metric']
    c = float(pit.get_cost(name))
    s = case['strength']
    v = must(res, 'base-regularizer', BaseRegularizer(name, s), pit)
    if v is None:
        return res
    if not _close(float(v), s * c, 1e-5):
        res.bad('base-regularizer-not-strength-times-cost', value=float(v), cost=c, strength=s)
    target = c * case['target_frac']
    s32 = float(torch.tensor(s, dtype=torch.float32))
    reg = DUCCIO({name: torch.tensor(target, dtype=torch.float32)},
                 final_strengths=(torch.tensor(s, dtype=torch.float32),))
    ne = case['n_epochs']
    epoch = int(round(case['epoch_frac'] * ne))
    d = must(res, 'duccio', reg, pit, epoch, ne)
    if d is None:
        return res
    t32 = float(torch.tensor(target, dtype=torch.float32))
    ramp = min(1.0, 0.01 + 0.99 * epoch / (ne / 2))
    ref = s32 * ramp * max(0.0, c - t32)
    dv = float(d)
    if dv < 0 or not math.isfinite(dv):
        res.bad('penalty-negative-or-non-finite', value=dv)
    elif not _close(dv, ref, 1e-4) and not (ref == 0 and dv == 0):
        res.bad('penalty-differs-from-reference', value=dv, reference=ref, cost=c, target=t32)
    if (dv == 0) != (c <= t32):
        res.bad('penalty-zero-iff-all-constraints-hold', value=dv, cost=c, target=t32)
    # the gradient reaching the architecture parameters is strength x d(cost)
    params = [p for p in pit.nas_parameters() if p.requires_grad]
    if params and c > t32 and pit.get_cost(name).requires_grad:
        g1 = safe_grad(res, 'regularizer-gradient', reg(pit, epoch, ne), params, retain_graph=False)
        g2 = safe_grad(res, 'cost-gradient', pit.get_cost(name), params, retain_graph=False)
        for a, b in zip(g1, g2):
            if (a is None) != (b is None):
                res.bad('regularizer-gradient-support-differs-from-cost-gradient')
                break
            if a is not None and (a - s32 * ramp * b).abs().max() > 1e-4 * (
                    1e-12 + float((s32 * ramp * b).abs().max())):
                res.bad('regularizer-gradient-not-strength-times-cost-gradient')
                break
    res.nontrivial = c > t32
    res.ev('metric:' + name, 'above-target' if c > t32 else 'within-target',
           'discrete-cost' if case['discrete'] else 'continuous-cost')
    res.obs = {'cost': c, 'target': t32, 'penalty': dv, 'reference': ref}
    return res


# ----------------------------------------------------------------------------------------
# real SuperNet models (Gumbel sampling, training mode): the cost the regularizer sees is the cost
# the model reports for the coefficients sampled by the last forward pass
# ----------------------------------------------------------------------------------------
@st.composite
def sn_real_cases(draw):
    from .. import snutil as su
    spec = draw(su.sn_specs(max_sn=2, functional_tail=False, max_branches=4))
    for n in su.sn_nodes(spec):
        n['gumbel'] = draw(st.booleans())
    return {'spec': spec, 'wseed': draw(st.integers(0, 20)), 'aseed': draw(st.integers(0, 500)),
            'strength': draw(pos), 'metric': draw(st.sampled_from(['params', 'ops'])),
            'train': draw(st.booleans()), 'n_epochs': draw(st.integers(1, 20)),
            'epoch_frac': draw(st.floats(0, 1))}


def oracle_sn_real(case) -> Result:
    import torch
    import plinio.cost as pc
    from plinio.regularizers import BaseRegularizer, DUCCIO
    from .. import snutil as su
    res = Result()
    spec = case['spec']
    net, sn, x0 = su.build_sn(spec, case['wseed'], cost={'params': pc.params, 'ops': pc.ops})
    su.set_winner_coefficients(sn, spec, {n['id']: 0 for n in su.sn_nodes(spec)}, case['aseed'])
    sn.train(bool(case['train']))
    torch.manual_seed(case['aseed'])
    with torch.no_grad():
        if must(res, 'forward', ng.call, sn, ng.make_input(spec, 1, batch=2)) is None:
            return res
    name, s = case['metric'], case['strength']
    c = float(sn.get_cost(name))
    v = must(res, 'base-regularizer', BaseRegularizer(name, s), sn)
    if v is None:
        return res
    if not _close(float(v), s * c, 1e-5):
        res.bad('base-regularizer-not-strength-times-cost', value=float(v), cost=c, strength=s,
                model='supernet', training=bool(case['train']))
    # target = the cost the model has right now: the penalty is exactly zero
    reg = DUCCIO({name: torch.tensor(c, dtype=torch.float32)},
                 final_strengths=(torch.tensor(s, dtype=torch.float32),))
    ne = case['n_epochs']
    d = must(res, 'duccio', reg, sn, int(round(case['epoch_frac'] * ne)), ne)
    if d is not None and float(d) != 0.0:
        res.bad('penalty-zero-iff-all-constraints-hold', value=float(d), cost=c, target=c,
                model='supernet', training=bool(case['train']))
    res.nontrivial = any(n.get('gumbel') for n in su.sn_nodes(spec)) and bool(case['train'])
    res.ev('metric:' + name, 'supernet', 'training-mode' if case['train'] else 'eval-mode',
           'gumbel' if any(n.get('gumbel') for n in su.sn_nodes(spec)) else 'softmax')
    res.obs = {'cost': c, 'base': float(v)}
    return res


@st.composite
def base_cases(draw):
    return {'cost': draw(st.floats(min_value=0, max_value=1e9)),
            'strength': draw(st.floats(min_value=0, max_value=1e3))}


def oracle_base(case) -> Result:
    import torch
    from plinio.regularizers import BaseRegularizer
    res = Result()
    keeps = case['cost'] > 0 and int(case['cost'] * 1e6) % 2 == 0     # 'every model'
    m = (KeepStub if keeps else Stub)({'x': case['cost']})
    reg = BaseRegularizer('x', case['strength'])
    v = reg(m)
    c32 = float(torch.tensor(case['cost'], dtype=torch.float32))
    if keeps:
        # the regularizer reads the model's cost: it does not change it, and asking again gives
        # the same answer
        if float(m.get_cost('x')) != c32:
            res.bad('base-regularizer-changed-the-cost-held-by-the-model', before=c32,
                    after=float(m.get_cost('x')), strength=case['strength'])
        v2 = reg(m)
        if float(v2) != float(v):
            res.bad('base-regularizer-second-call-differs', first=float(v), second=float(v2))
    if not _close(float(v), c32 * case['strength'], 1e-6) and not (float(v) == 0 and
                                                                 c32 * case['strength'] < 1e-38):
        res.bad('base-regularizer-not-strength-times-cost', value=float(v), cost=c32,
                strength=case['strength'])
    (g,) = torch.autograd.grad(v, [m.t['x']])
    if not _close(float(g), case['strength'], 1e-6) and case['strength'] > 1e-38:
        res.bad('base-regularizer-gradient-not-strength', grad=float(g))
    res.nontrivial = case['cost'] > 0 and case['strength'] > 0
    return res


CHECK = Check(
    prop='C19',
    parts=[
        Part('schedule', oracle_schedule, enumerate=enum_schedule,
             exhaustive_note='all (n_epochs, epoch) pairs, n_epochs 1..50, epoch 0..n_epochs'),
        Part('duccio-stub', oracle_duccio, strategy=duccio_cases(),
             budget={'quick': 1500, 'thorough': 10000}, shards={'quick': 1, 'thorough': 16}),
        Part('base-stub', oracle_base, strategy=base_cases(),
             budget={'quick': 500, 'thorough': 3000}, shards={'quick': 1, 'thorough': 4}),
        Part('real-pit', oracle_real, strategy=real_cases(),
             budget={'quick': 120, 'thorough': 600}, shards={'quick': 1, 'thorough': 16}),
        Part('real-supernet', oracle_sn_real, strategy=sn_real_cases(),
             budget={'quick': 60, 'thorough': 400}, shards={'quick': 1, 'thorough': 16}),
    ],
    rule=("real-supernet: generated SuperNets (soft-max or Gumbel blocks, training or eval mode) "
          "after one forward pass: BaseRegularizer == strength x the cost read just before, DUCCIO "
          "with the target set to that cost == 0. duccio-stub: stub DNAS objects with 1..3 named costs each above / at / below its target, "
          "final strengths given (positive float32 tensors) or derived from task_loss, n_epochs "
          "1..50, epoch 0..n_epochs; reference = sum_i s_i * min(1, 0.01 + 0.99*epoch/(n/2)) * "
          "relu(cost_i - target_i) in float64 plus zero-iff, growth under a bumped excess and "
          "gradient = effective strength. schedule: exhaustive epoch grid. real-pit: small PIT "
          "models from the NetSpec grammar with drawn masks, BaseRegularizer and DUCCIO on "
          "params/ops with continuous or discrete cost. Non-trivial = at least one cost above its "
          "target (schedule: n_epochs >= 2); distinct by case hash."),
    assumptions=[
        "derived final strengths are asserted only when every initial cost exceeds its target "
        "(otherwise they are 0 or inf*0 and outside 'positive final strengths'): such cases are "
        "counted as discarded",
        "float32 arithmetic of the regularizer vs float64 reference: relative tolerance 1e-4 "
        "(1e-5 / 1e-6 on single products)",
    ],
)
