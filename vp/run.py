"""CLI:  python -m vp.run <ID> [--tier quick|thorough] [--replay FILE] | --selftest

exit 0  property held on everything explored (KNOWN-FINDING lines possible)
exit 1  at least one unlisted violation; one line `VIOLATION property=<ID> replay=<path>` each
exit 2  harness error (import failure, generator failure, evidence not writable)
"""
from __future__ import annotations

import argparse
import importlib
import json
import os
import sys
import time
import traceback

from . import core


def load_check(prop: str) -> core.Check:
    core.setup_env()
    mod = importlib.import_module(f"vp.checks.{prop.lower()}")
    return mod.CHECK


def run_check(prop: str, tier: str, replay: str = None) -> int:
    t0 = time.time()
    seed = core.env_seed()
    check = load_check(prop)
    stats = core.Stats()
    exit_code = core.EXIT_OK
    n_viol = 0

    if replay is not None:
        res, unlisted, rec = core.replay_file(check, replay, stats)
        print(json.dumps({'discrepancies': res.discrepancies, 'observed': core._jsonable(res.obs),
                          'nontrivial': res.nontrivial, 'events': res.events}, indent=1,
                         default=repr))
        if unlisted:
            print(f"VIOLATION property={prop} replay={replay}")
            return core.EXIT_VIOLATION
        return core.EXIT_OK

    known = core.load_known_findings(prop)
    open_known = [e for e in known if e.get('status') == 'open']

    # 1. regression / witness replays
    for path in core.list_replays(prop):
        res, unlisted, rec = core.replay_file(check, path, stats)
        rel = os.path.relpath(path, core.ROOT)
        expect = rec.get('expect', 'pass')
        if unlisted:
            n_viol += 1
            print(f"VIOLATION property={prop} replay={rel}")
            sys.stdout.flush()
            exit_code = core.EXIT_VIOLATION
        elif expect.startswith('known:') and not res.discrepancies:
            print(f"note: witness {rel} of {expect} no longer fails", file=sys.stderr)

    # 2. parts
    for part in check.parts:
        for v in core.run_part(check, part, tier, seed, stats):
            n_viol += 1
            path = core.write_violation(prop, v)
            print(f"VIOLATION property={prop} replay={path}")
            print(f"  part={v['part']} bucket={v['bucket']}", file=sys.stderr)
            print("  " + json.dumps(core._jsonable(v['discrepancies']), default=repr)[:1500],
                  file=sys.stderr)
            sys.stdout.flush()
            exit_code = core.EXIT_VIOLATION

    for e in open_known:
        hit = stats.known_hit.get(e['id'], 0)
        print(f"KNOWN-FINDING: property={prop} {e['id']}: {e['what']} [hit {hit}x in this run]")

    core.write_evidence(check, tier, seed, stats, n_viol, time.time() - t0)
    if stats.evaluations == 0:
        raise core.HarnessError(f"{prop}: no case was evaluated")
    print(f"{prop} tier={tier} seed={seed} evaluations={stats.evaluations} "
          f"nontrivial={len(stats.nontrivial)} violations={n_viol} "
          f"wall={time.time() - t0:.1f}s", file=sys.stderr)
    return exit_code


def selftest() -> int:
    core.setup_env()
    import hypothesis  # noqa
    with open(os.path.join(core.ROOT, 'MANIFEST.json')) as f:
        man = json.load(f)
    try:
        import jsonschema
        with open('/root/.vp/MANIFEST.schema.json') as f:
            jsonschema.validate(man, json.load(f))
    except ImportError:
        pass
    except FileNotFoundError:
        pass
    for c in man['checks']:
        load_check(c['property_id'])
    kf = os.path.join(core.ROOT, 'known_findings.json')
    if os.path.exists(kf):
        json.load(open(kf))
    for c in man['checks']:
        for p in core.list_replays(c['property_id']):
            rec = json.load(open(p))
            assert 'part' in rec and 'case' in rec, p
    print("selftest ok")
    return 0


def main(argv=None) -> int:
    ap = argparse.ArgumentParser()
    ap.add_argument('prop', nargs='?')
    ap.add_argument('--tier', default=os.environ.get('VERIF_TIER', 'quick'),
                    choices=['quick', 'thorough'])
    ap.add_argument('--replay')
    ap.add_argument('--selftest', action='store_true')
    a = ap.parse_args(argv)
    try:
        if a.selftest:
            return selftest()
        if not a.prop:
            ap.error('property id required')
        return run_check(a.prop.upper(), a.tier, a.replay)
    except core.HarnessError as e:
        print(f"HARNESS ERROR: {e}", file=sys.stderr)
        return core.EXIT_HARNESS
    except Exception:  # noqa
        traceback.print_exc()
        return core.EXIT_HARNESS


if __name__ == '__main__':
    sys.exit(main())
