"""C09 - every layer sees exactly the alive features of the tensor that reaches it."""
from __future__ import annotations

from hypothesis import strategies as st

from .. import masks as mk
from .. import netgen as ng
from .. import pitutil as pu
from ..core import Check, Part, Result, must


def profile(family, big=False):
    if family == '1d':
        return ng.Profile(family='1d', pads=('causal', 'same', 'none'), standalone_bn=True,
                          exclude=True, reuse=True, multi_input=True, fixtures=True,
                          max_blocks=7 if big else 5, kmax=5, min_blocks=2, bn=True,
                          exclude_propagating=True)
    return ng.Profile(family='2d', standalone_bn=True, exclude=True, reuse=True,
                      multi_input=True, fixtures=True, max_blocks=7 if big else 5, min_blocks=2, bridge=True,
                      pads=('causal', 'same', 'none'), exclude_propagating=True)


@st.composite
def cases(draw, big=False):
    fam = draw(st.sampled_from(['1d', '2d']))
    spec = draw(ng.netspecs(profile(fam, big)))
    mode = draw(st.sampled_from(['names', 'names', 'type:linear', 'type:conv', 'import']))
    if mode.startswith('type:'):
        want = ('linear',) if mode == 'type:linear' else ng.CONV_OPS
        for n in spec['nodes']:
            if n['op'] in ng.LAYER_OPS:
                if n['op'] in want:
                    n['excl'] = True
                else:
                    n.pop('excl', None)
    plain = []
    if mode == 'import':
        for n in spec['nodes']:
            n.pop('excl', None)
        lay = [n['id'] for n in spec['nodes'] if n['op'] in ng.LAYER_OPS]
        plain = [i for i in lay if draw(st.integers(0, 3)) == 0]
        fixed = set(plain)
    else:
        fixed = pu.fixed_ids(spec)
    masks = draw(mk.pit_masks(spec, fixed, time_masks=False))
    return {'spec': spec, 'masks': masks, 'mode': mode, 'plain': plain,
            'fold_bn': draw(st.booleans()), 'wseed': draw(st.integers(0, 20)),
            'vseed': draw(st.integers(0, 20))}


def oracle(case) -> Result:
    import torch
    import torch.nn as nn
    res = Result()
    spec = case['spec']
    mode = case['mode']
    masks = case['masks']
    if mode == 'import':
        fixed = set(case['plain'])
        net, pit, x0 = pu.build_pit_import(spec, case['wseed'], fixed, fold_bn=case['fold_bn'])
    else:
        fixed = pu.fixed_ids(spec)
        kw = {}
        if mode == 'type:linear':
            kw = dict(exclude_names=(), exclude_types=(nn.Linear,))
        elif mode == 'type:conv':
            kw = dict(exclude_names=(), exclude_types=(nn.Conv1d, nn.Conv2d))
        net, pit, x0 = pu.build_pit(spec, case['wseed'], fold_bn=case['fold_bn'], **kw)
    pit.eval()
    pit.discrete_cost = True
    layers = pu.pit_layers(pit)
    for nid in layers:
        if nid in fixed:
            res.bad('excluded-layer-was-converted', layer=nid, mode=mode)
    mk.apply_pit_masks(pit, spec, masks, case['vseed'], fixed)
    alive, in_alive = ng.alive_masks(spec, masks['g'], fixed)
    shapes = ng.infer_shapes(spec)
    summ = pit.summary()
    exported = must(res, 'export', pit.export)
    has_bn = any(n['op'] == 'bn' for n in spec['nodes'])
    downstream_pruned = False
    for n in spec['nodes']:
        nid = n['id']
        if nid not in layers or n['op'] == 'reuse':
            continue
        layer = layers[nid]
        want_in = in_alive[nid]
        # a layer applied twice has ONE calculator: the generator keeps both call sites in one group
        got_mask = [bool(v) for v in layer.input_features_calculator.features_mask.tolist()]
        if ng.is_dw(n):
            # depthwise layers have weight dim 1 on the cin axis; the mask still describes inputs
            pass
        if got_mask != want_in:
            res.bad('input-features-mask', layer=nid, got=got_mask, want=want_in)
            continue
        mv = layer.get_modified_vars()       # what the cost function is shown (charged for)
        feats = float(mv['in_features'] if n['op'] == 'linear' else mv['in_channels'])
        s = summ[f"layers.{nid}"]
        n_in = sum(want_in)
        if abs(feats - n_in) > 1e-4 or s['in_features'] != n_in:
            res.bad('input-features-count', layer=nid, charged=feats, reported=s['in_features'],
                    reference=n_in)
        got_out = [bool(v) for v in layer.features_mask.tolist()]
        if got_out != alive[nid]:
            res.bad('output-features-mask', layer=nid, got=got_out, want=alive[nid])
        if exported is not None:
            em = exported.get_submodule(f"layers.{nid}")
            e_in = em.in_features if hasattr(em, 'in_features') else em.in_channels
            e_out = em.out_features if hasattr(em, 'out_features') else em.out_channels
            if (e_in, e_out) != (n_in, sum(alive[nid])):
                res.bad('exported-width', layer=nid, exported=[e_in, e_out],
                        reference=[n_in, sum(alive[nid])])
        if not all(want_in) and any(spec_n['op'] in ('cat', 'flatten', 'add', 'cat_t', 'squeeze')
                                    or spec_n.get('excl') for spec_n in spec['nodes']):
            downstream_pruned = True
    # both sides of a residual sum / time concat carry the same alive set
    for n in spec['nodes']:
        if n['op'] in ('add', 'cat_t'):
            ms = [alive[i] for i in n['in']]
            if any(m != ms[0] for m in ms):
                res.bad('reference-inconsistent-add', node=n['id'])   # harness sanity
    # stand-alone BN export width
    if exported is not None:
        for n in spec['nodes']:
            if n['op'] == 'bn':
                em = exported.get_submodule(f"layers.{n['id']}")
                if em.num_features != sum(in_alive[n['id']]):
                    res.bad('exported-bn-width', layer=n['id'], got=em.num_features,
                            want=sum(in_alive[n['id']]))
    # dynamic cross-check: what actually flows into each layer of the PIT model
    if not has_bn and not res.discrepancies:
        seen = {}
        hooks = []
        for nid, layer in layers.items():
            def hook(mod, inp, _nid=nid):
                t = inp[0].detach()
                dims = [d for d in range(t.dim()) if d != 1]
                nz = (t.abs().amax(dim=dims) > 0)
                seen[_nid] = nz if _nid not in seen else (seen[_nid] | nz)
            hooks.append(layer.register_forward_pre_hook(hook))
        with torch.no_grad():
            for xs in (1, 2, 3):
                must(res, 'pit-forward', ng.call, pit, ng.make_input(spec, xs, batch=2))
        for h in hooks:
            h.remove()
        for nid, nz in seen.items():
            want = in_alive[nid]
            if len(want) != nz.numel():
                continue
            extra = [i for i, v in enumerate(nz.tolist()) if v and not want[i]]
            if extra:
                res.bad('dead-feature-carries-signal', layer=nid, channels=extra)
    if exported is not None:
        exported.eval()
        x = ng.make_input(spec, 5, batch=2)
        with torch.no_grad():
            y = must(res, 'exported-forward', ng.call, exported, x)
        if y is not None and tuple(y.shape[1:]) != tuple(shapes[spec['out']]):
            res.bad('exported-output-shape', got=list(y.shape), want=list(shapes[spec['out']]))
    pr = mk.n_pruned(spec, masks, fixed)
    res.nontrivial = pr['features'] > 0 and downstream_pruned
    res.ev(*ng.spec_features(spec))
    res.ev('mode:' + mode)
    for n in spec['nodes']:
        if n['op'] == 'cat':
            kinds = []
            for i in n['in']:
                if i.startswith('x'):
                    kinds.append('input')
                else:
                    g = ng.width_groups(spec, fixed)
                    kinds.append('fixed' if g[0][i] in g[1] else 'search')
            res.ev('cat:' + '+'.join(sorted(kinds)))
    res.obs = {'in_alive': {k: sum(v) for k, v in list(in_alive.items())[:6]}}
    return res


def enum_fixtures(tier):
    """Every hand-written topology of the grammar (nested / same-producer concatenations, MLPs on
    the raw input, an excluded depthwise layer, ...) with four deterministic mask patterns written
    into EVERY width group, pinned ones included."""
    import copy
    pats = {'alt0': lambda i: i % 2 == 0, 'alt1': lambda i: i % 2 == 1,
            'none': lambda i: False, 'first': lambda i: i == 0}
    for fam in ('1d', '2d'):
        for k, spec in enumerate(ng._fixtures(fam, 'causal')):
            fixed = pu.fixed_ids(spec)
            group_of, frozen, members = ng.width_groups(spec, fixed)
            shapes = ng.infer_shapes(spec)
            for pname, f in pats.items():
                g = {rep: [bool(f(i)) for i in range(shapes[rep][0])]
                     for rep in sorted(set(group_of.values())) if not rep.startswith('x')}
                yield {'spec': copy.deepcopy(spec), 'masks': {'g': g, 't': {}}, 'mode': 'names',
                       'plain': [], 'vseed': k, 'wseed': k, 'fold_bn': bool(k % 2)}


CHECK = Check(
    prop='C09',
    parts=[
        Part('fixtures', oracle, enumerate=enum_fixtures,
             exhaustive_note='every hand-written topology of the grammar (both families) x four '
                             'mask patterns written into every width group'),
        Part('nets', oracle, strategy=cases(),
             budget={'quick': 600, 'thorough': 1500}, shards={'quick': 1, 'thorough': 16}),
        Part('nets-big', oracle, strategy=cases(big=True),
             budget={'quick': 0, 'thorough': 300}, shards={'quick': 1, 'thorough': 16}),
    ],
    rule=("DAG-heavy NetSpec networks (add, channel concat of 2..3 tensors of searchable / fixed / "
          "input origin, time concat, flatten / squeeze variants, depthwise chains, stand-alone BN, "
          "twice-applied layers) with exclusion by name, by type (Linear or Conv) or import mode "
          "(autoconvert off, user-placed PIT layers sharing maskers per width group) and a drawn "
          "alive/dead pattern per searchable width group. Oracle: reference alive-mask propagation "
          "over the NetSpec compared element-wise with each layer's input_features_calculator "
          "mask, its charged features, summary(), exported widths, and the channels that actually "
          "carry signal into each layer of the PIT model. Non-trivial = a feature is pruned and "
          "a layer with a partially dead input exists in a net containing cat/flatten/add/excluded "
          "layers; distinct by case hash."),
    assumptions=[
        "stand-alone BN maps dead (zero) channels to constants by design: the dynamic signal "
        "cross-check is skipped in nets containing one (shape-level checks still apply)",
        "import mode: the user shares one masker per width group and freezes pinned groups",
    ],
)
