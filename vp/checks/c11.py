"""C11 - trainability controls do what they say under every sequence of calls.

Model-based testing: every call is applied to the real model and to a dict model (expected
requires_grad per parameter, expected sampler options).  Breadth-first exploration of call
sequences with abstract-state de-duplication (until no new abstract state appears or the depth
bound is hit) on fixed models with frozen and shared components, plus Hypothesis sequences on
generated models.
"""
from __future__ import annotations

from hypothesis import strategies as st

from .. import masks as mk
from .. import mpsutil as mu
from .. import netgen as ng
from .. import pitutil as pu
from .. import snutil as su
from ..core import Check, Part, Result, must, safe_grad
from .c10 import check_theta, mps_must_argmax, sn_must_argmax

ALPHA = {
    'pit': ['train_nas_only', 'train_net_only', 'train_net_and_nas',
            'features:=T', 'features:=F', 'rf:=T', 'rf:=F', 'dilation:=T', 'dilation:=F',
            'discrete:=T', 'discrete:=F', 'step'],
    'mps': ['train_nas_only', 'train_net_only', 'train_net_and_nas',
            'temperature:=0.5', 'temperature:=2.0', 'hard:=T', 'hard:=F', 'gumbel:=T', 'gumbel:=F',
            'disable:=T', 'disable:=F', 'temperature:=0.5+hard:=T', 'hard:=F+gumbel:=T', 'step'],
    'supernet': ['train_nas_only', 'train_net_only', 'train_net_and_nas',
                 'temperature:=0.5', 'temperature:=2.0', 'hard:=T', 'hard:=F',
                 'temperature:=2.0+hard:=T', 'step'],
}


class Machine:
    def __init__(self, case):
        import torch
        self.case = case
        self.method = m = case['method']
        spec = case['spec']
        import plinio.cost as pc
        self.user_numel = None
        if m == 'pit':
            net, self.model, self.x0 = pu.build_pit(spec, case['wseed'], cost={'p': pc.params,
                                                                             'o': pc.ops})
            self.costs = ['p', 'o']
            self.user_numel = sum(p.numel() for p in net.parameters())
        elif m == 'mps':
            self.model, self.x0 = mu.build_mps(spec, case['wseed'], case['w_prec'], case['a_prec'],
                                               per_channel=case['per_channel'],
                                               cost={'p': pc.params_bit, 'o': pc.ops_bit})
            mu.set_coefficients(self.model, case.get('aseed', 1))
            self.costs = ['p', 'o']
        else:
            net, self.model, self.x0 = su.build_sn(spec, case['wseed'], cost={'p': pc.params,
                                                                             'o': pc.ops})
            self.costs = ['p', 'o']
            with torch.no_grad():
                for nid, c in su.combiners(self.model).items():
                    c.alpha.copy_(mu.scores(c.n_branches, None, case.get('aseed', 1), nid))
            self.user_numel = sum(p.numel() for p in net.parameters()
                                  ) - sum(c.alpha.numel() for c in su.combiners(self.model).values())
        self.model.train()
        self.classify()
        # dict model
        self.flags = {id(p): p.requires_grad for p in self.model.parameters()}
        self.opts = {'temperature': 1.0, 'hard': False, 'gumbel': False, 'disable': False}
        self.discrete = False
        self.frozen0 = {}
        for name, mod, pname in self.frozen_maskers:
            self.frozen0[name] = (getattr(mod, pname).detach().clone(), mod.theta.detach().clone())
        self.prev_theta = {}
        self.steps = 0

    # -- static classification of parameters
    def classify(self):
        from plinio.methods.pit.nn.features_masker import PITFeaturesMasker, PITFrozenFeaturesMasker
        from plinio.methods.pit.nn.timestep_masker import PITTimestepMasker, PITFrozenTimestepMasker
        from plinio.methods.pit.nn.dilation_masker import PITDilationMasker, PITFrozenDilationMasker
        self.cat = {}            # id(param) -> category
        self.frozen_maskers = []
        self.pname = {id(p): n for n, p in self.model.named_parameters()}
        for name, mod in self.model.named_modules():
            for cls, fcls, pn, cat in ((PITFeaturesMasker, PITFrozenFeaturesMasker, 'alpha',
                                        'features'),
                                       (PITTimestepMasker, PITFrozenTimestepMasker, 'beta', 'rf'),
                                       (PITDilationMasker, PITFrozenDilationMasker, 'gamma',
                                        'dilation')):
                if isinstance(mod, cls):
                    p = getattr(mod, pn)
                    if isinstance(mod, fcls):
                        self.cat[id(p)] = 'frozen'
                        if not any(m2 is mod for _, m2, _ in self.frozen_maskers):
                            self.frozen_maskers.append((name, mod, pn))
                    else:
                        self.cat[id(p)] = cat

    def abstract(self):
        ps = list(self.model.parameters())
        return (tuple(self.flags[id(p)] for p in ps if self.cat.get(id(p)) != 'frozen'),
                tuple(sorted(self.opts.items())), self.discrete)

    # -- one call on the real model and on the dict model
    def apply(self, op, res: Result, check=True):
        import torch
        M = self.model
        nas = [p for p in M.nas_parameters()]
        nas_ids = {id(p) for p in nas}
        if op in ('train_nas_only', 'train_net_only', 'train_net_and_nas'):
            must(res, op, getattr(M, op))
            for p in M.parameters():
                is_nas = id(p) in nas_ids
                self.flags[id(p)] = {'train_nas_only': is_nas, 'train_net_only': not is_nas,
                                     'train_net_and_nas': True}[op]
        elif '+' in op:
            # several sampling options in ONE call
            kw = {}
            for part in op.split('+'):
                name, val = part.split(':=')
                v = float(val) if name == 'temperature' else (val == 'T')
                kw['disable_sampling' if name == 'disable' else name] = v
                self.opts[name] = v
            must(res, op, M.update_softmax_options, **kw)
        elif ':=' in op:
            name, val = op.split(':=')
            if name in ('features', 'rf', 'dilation'):
                v = val == 'T'
                must(res, op, setattr, M, 'train_' + name, v)
                for p in M.parameters():
                    if self.cat.get(id(p)) == name:
                        self.flags[id(p)] = v
            elif name == 'discrete':
                must(res, op, setattr, M, 'discrete_cost', val == 'T')
                self.discrete = val == 'T'
            else:
                v = float(val) if name == 'temperature' else (val == 'T')
                kw = {('disable_sampling' if name == 'disable' else name): v}
                must(res, op, M.update_softmax_options, **kw)
                self.opts[name] = v
        elif op == 'step':
            self.step(res)
        if check and not res.discrepancies:
            self.invariants(op, res)

    def step(self, res):
        import torch
        M = self.model
        self.steps += 1
        torch.manual_seed(50 + self.steps)
        x = mu.mps_input(self.case['spec'], self.steps) if self.method == 'mps' else \
            ng.make_input(self.case['spec'], self.steps, batch=2)
        for p in M.parameters():
            p.grad = None
        y = must(res, 'forward', ng.call, M, x)
        if y is None:
            return
        if self.method == 'mps':
            # the coefficients in force after this forward are what 'sampling disabled' must keep
            for q in mu.quantizers(M).values():
                self.prev_theta[id(q)] = q.theta_alpha.detach().clone()
        loss = (y ** 2).mean() + 1e-3 * sum(M.get_cost(n) for n in self.costs)
        if loss.requires_grad:
            try:
                loss.backward()
            except RuntimeError as e:
                if self.opts.get('disable') and 'backward through the graph a second time' in str(e):
                    # with sampling disabled the selectors keep the coefficient tensors of the
                    # last sampled forward, whose autograd graph an earlier backward() already
                    # freed.  The property says nothing about training the coefficients while
                    # their sampling is off: recorded as an event, not as a discrepancy.
                    res.ev('stale-coefficient-graph-while-sampling-disabled')
                    return
                must(res, 'backward', _reraise, e)
                return
        trainable = [p for p in M.parameters() if p.requires_grad]
        # (ii) behavioural: gradients only where the flag allows them
        for p in M.parameters():
            if not p.requires_grad and p.grad is not None and float(p.grad.abs().max()) != 0:
                res.bad('gradient-on-non-trainable-parameter', param=self.pname[id(p)])
        # (iii) frozen maskers: no gradient, ever
        for name, mod, pn in self.frozen_maskers:
            g = getattr(mod, pn).grad
            if g is not None and float(g.abs().max()) != 0:
                res.bad('frozen-mask-received-a-gradient', masker=name, grad=g.tolist()[:6])
        if trainable:
            # bounded update (gradient-norm clipping) so that no history of steps can diverge:
            # the step exists to move every trainable parameter, not to optimise anything
            gs = [p.grad for p in trainable if p.grad is not None]
            if gs and all(bool(torch.isfinite(g).all()) for g in gs):
                torch.nn.utils.clip_grad_norm_(trainable, 1.0)
                opt = torch.optim.SGD(trainable, lr=0.05, weight_decay=0.0)
                opt.step()
        for name, mod, pn in self.frozen_maskers:
            p0, t0 = self.frozen0[name]
            if not torch.equal(getattr(mod, pn).detach(), p0) or not torch.equal(
                    mod.theta.detach(), t0):
                res.bad('frozen-mask-changed', masker=name)

    def invariants(self, op, res):
        import torch
        M = self.model
        # (i) partition
        allp = [id(p) for p in M.parameters()]
        nas = [id(p) for p in M.nas_parameters()]
        net = [id(p) for p in M.net_parameters()]
        if len(set(nas)) != len(nas) or len(set(net)) != len(net):
            res.bad('parameter-reported-twice', after=op)
        if set(nas) & set(net):
            res.bad('parameter-both-architectural-and-network', after=op,
                    params=[self.pname.get(i) for i in list(set(nas) & set(net))[:4]])
        if set(nas) | set(net) != set(allp):
            missing = set(allp) - set(nas) - set(net)
            extra = (set(nas) | set(net)) - set(allp)
            res.bad('parameters-not-partitioned', after=op,
                    missing=[self.pname.get(i) for i in list(missing)[:4]], extra=len(extra))
        # reference classification: selection / mask parameters are architectural, layer weights
        # are network parameters, and no parameter of the user's network is lost
        import torch.nn as nn
        from plinio.methods.mps.nn.qtz import MPSBaseQtz
        from plinio.methods.supernet.nn.combiner import SuperNetCombiner
        for name, mod in M.named_modules():
            own = list(mod.named_parameters(recurse=False))
            if isinstance(mod, (MPSBaseQtz, SuperNetCombiner)) or id(mod) in {
                    id(mm) for _, mm, _ in self.frozen_maskers} or any(
                    self.cat.get(id(p)) in ('features', 'rf', 'dilation') for _, p in own):
                for pn, p in own:
                    if id(p) not in set(nas):
                        res.bad('selection-parameter-not-architectural', after=op,
                                param=f"{name}.{pn}")
            elif isinstance(mod, (nn.Conv1d, nn.Conv2d, nn.Linear, nn.BatchNorm1d,
                                  nn.BatchNorm2d)):
                for pn, p in own:
                    if id(p) not in set(net):
                        res.bad('layer-weight-not-a-network-parameter', after=op,
                                param=f"{name}.{pn}")
        if self.user_numel is not None:
            got = sum(p.numel() for p in M.net_parameters())
            if got != self.user_numel:
                res.bad('network-parameters-of-the-user-model-lost-or-duplicated', after=op,
                        wrapper=got, user_model=self.user_numel)
        # (ii) flags == dict model (frozen maskers exempt: a baseline test pins their flag)
        for p in M.parameters():
            if self.cat.get(id(p)) == 'frozen':
                continue
            if p.requires_grad != self.flags[id(p)]:
                res.bad('requires-grad-differs-from-model', after=op, param=self.pname[id(p)],
                        actual=p.requires_grad, expected=self.flags[id(p)])
                break
        if self.method == 'pit' and M.discrete_cost != self.discrete:
            res.bad('discrete-cost-flag-differs-from-model', after=op)
        # (iv) sampling options: observable behaviour of every selector == dict model
        if self.method in ('mps', 'supernet') and op != 'step':
            torch.manual_seed(7)
            x = mu.mps_input(self.case['spec'], 3) if self.method == 'mps' else \
                ng.make_input(self.case['spec'], 3, batch=2)
            was = M.training
            M.train()
            with torch.no_grad():
                y = must(res, 'forward', ng.call, M, x)
            if y is not None:
                n_checked = [0]
                if self.method == 'mps':
                    seen = set()
                    for qn, q in mu.quantizers(M).items():
                        if id(q) in seen or q.alpha.shape[0] < 2:
                            continue
                        seen.add(id(q))
                        stt = dict(self.opts, training=True, must_argmax=mps_must_argmax)
                        check_theta(res, f"{op}:{qn}", q.theta_alpha, q.alpha, stt,
                                    self.prev_theta.get(id(q)), n_checked)
                        self.prev_theta[id(q)] = q.theta_alpha.detach().clone()
                else:
                    gum = {n['id']: n.get('gumbel', False) for n in su.sn_nodes(self.case['spec'])}
                    for nid, c in su.combiners(M).items():
                        stt = dict(self.opts, gumbel=gum[nid], disable=False, training=True,
                                   must_argmax=sn_must_argmax)
                        check_theta(res, f"{op}:{nid}", c.theta_alpha, c.alpha, stt, None,
                                    n_checked)
            M.train(was)


def _reraise(e):
    raise e


# ----------------------------------------------------------------------------------------
# fixed models for the breadth-first exploration
# ----------------------------------------------------------------------------------------
def _c1(i, src, k, cout, stride=1, bias=True, bn=False, groups=1, pad='causal', dil=1):
    return {'id': i, 'op': 'conv1d', 'in': [src], 'k': k, 'dil': dil, 'stride': stride, 'pad': pad,
            'cout': cout, 'bias': bias, 'bn': bn, 'groups': groups}


def _c2(i, src, k, cout, stride=1, bias=True, bn=False, groups=1):
    return {'id': i, 'op': 'conv2d', 'in': [src], 'k': k, 'p': k // 2, 'stride': stride,
            'cout': cout, 'bias': bias, 'bn': bn, 'groups': groups}


FIXED = [
    {'method': 'pit', 'wseed': 1, 'spec': {'family': '1d', 'inputs': [[2, 12]], 'out': 'n6', 'nodes': [
        _c1('n0', 'x', 3, 4, bn=True), {'id': 'n1', 'op': 'relu', 'in': ['n0'], 'variant': 'mod'},
        _c1('n2', 'n1', 5, 4, stride=2),                      # frozen rf / dilation maskers
        _c1('n3', 'n2', 3, 4), {'id': 'n4', 'op': 'add', 'in': ['n3', 'n2'], 'variant': 'op'},
        _c1('n5', 'n4', 4, 3, bias=False, bn=True),
        _c1('n6', 'n5', 1, 2, pad='none')]}},                 # output connected: frozen features
    {'method': 'pit', 'wseed': 2, 'spec': {'family': '2d', 'inputs': [[2, 6, 6]], 'out': 'n5', 'nodes': [
        _c2('n0', 'x', 3, 2, groups=2),                        # input connected depthwise: frozen
        _c2('n1', 'n0', 3, 4, bn=True), _c2('n2', 'n1', 3, 4, groups=4),
        {'id': 'n3', 'op': 'gap', 'in': ['n2']},
        {'id': 'n4', 'op': 'flatten', 'in': ['n3'], 'variant': 'mod'},
        {'id': 'n5', 'op': 'linear', 'in': ['n4'], 'cout': 3, 'bias': True, 'bn': False}]}},
    {'method': 'mps', 'wseed': 1, 'per_channel': False, 'w_prec': [2, 4, 8], 'a_prec': [4, 8],
     'spec': {'family': '2d', 'inputs': [[2, 5, 5]], 'out': 'n4', 'nodes': [
         _c2('n0', 'x', 3, 3, bn=True), {'id': 'n1', 'op': 'relu', 'in': ['n0'], 'variant': 'mod'},
         _c2('n2', 'n1', 1, 3, bias=False), {'id': 'n3', 'op': 'add', 'in': ['n2', 'n1'],
                                             'variant': 'op'},
         _c2('n4', 'n3', 1, 2)]}},
    {'method': 'mps', 'wseed': 2, 'per_channel': True, 'w_prec': [0, 2, 8], 'a_prec': [2, 8],
     'spec': {'family': '2d', 'inputs': [[1, 5, 5]], 'out': 'n4', 'nodes': [
         _c2('n0', 'x', 3, 4), _c2('n1', 'n0', 3, 4, groups=4),
         {'id': 'n2', 'op': 'gap', 'in': ['n1']},
         {'id': 'n3', 'op': 'flatten', 'in': ['n2'], 'variant': 'mod'},
         {'id': 'n4', 'op': 'linear', 'in': ['n3'], 'cout': 3, 'bias': True, 'bn': False}]}},
    {'method': 'supernet', 'wseed': 1, 'spec': {'family': '2d', 'inputs': [[2, 5, 5]], 'out': 'n3', 'nodes': [
        _c2('n0', 'x', 3, 3, bn=True),
        {'id': 'n1', 'op': 'snmodule', 'in': ['n0'], 'cout': 3, 'gumbel': True, 'hard': False,
         'branches': [{'kind': 'conv', 'k': 3, 'bias': True}, {'kind': 'dwsep'},
                      {'kind': 'identity'}]},
        {'id': 'n2', 'op': 'snmodule', 'in': ['n1'], 'cout': 2, 'gumbel': False, 'hard': False,
         'branches': [{'kind': 'conv', 'k': 1, 'bias': False},
                      {'kind': 'block', 'mid': 2, 'tail': 'func'}]},
        _c2('n3', 'n2', 1, 2)]}},
]


def oracle_bfs(case) -> Result:
    """One case = the complete breadth-first exploration of one fixed model."""
    res = Result()
    alphabet = ALPHA[case['method']]
    depth = case['depth']
    root = Machine(case)
    seen = {root.abstract(): []}
    frontier = [[]]
    transitions = 0
    closed = True
    for d in range(depth):
        nxt = []
        for path in frontier:
            for op in alphabet:
                m = Machine(case)
                scratch = Result()
                for o in path:
                    m.apply(o, scratch, check=False)
                m.apply(op, res, check=True)
                transitions += 1
                if res.discrepancies:
                    for dsc in res.discrepancies:
                        dsc['history'] = path + [op]
                    return res
                a = m.abstract()
                if a not in seen:
                    seen[a] = path + [op]
                    nxt.append(path + [op])
        frontier = nxt
        if not frontier:
            break
    else:
        closed = not frontier
    res.nontrivial = True
    res.ev('closed' if closed else 'depth-bound-hit', 'method:' + case['method'])
    res.obs = {'abstract_states': len(seen), 'transitions': transitions,
               'closed_under_reachability': closed, 'depth': depth,
               'frozen_maskers': [n for n, _, _ in root.frozen_maskers]}
    return res


def enum_bfs(tier):
    for base in FIXED:
        yield dict(base, depth=3 if tier == 'quick' else 8)


# ----------------------------------------------------------------------------------------
# Hypothesis sequences on generated models
# ----------------------------------------------------------------------------------------
@st.composite
def seq_cases(draw, method):
    if method == 'pit':
        fam = draw(st.sampled_from(['1d', '1d', '2d']))
        spec = draw(ng.netspecs(ng.Profile(family=fam, pads=('causal', 'same'), exclude=True,
                                           reuse=True, max_blocks=4, min_blocks=2, dropout=False,
                                           fixtures=True)))
        case = {'method': 'pit', 'spec': spec}
    elif method == 'mps':
        prof = mu.profile()
        prof.dropout = False
        case = {'method': 'mps', 'spec': mu.fix_tail(draw(ng.netspecs(prof))),
                'per_channel': draw(st.booleans()), 'w_prec': draw(mu.precisions),
                'a_prec': draw(mu.precisions), 'aseed': draw(st.integers(0, 100))}
    else:
        case = {'method': 'supernet',
                'spec': draw(su.sn_specs(max_sn=2, functional_tail=True, max_branches=5))}
    case['wseed'] = draw(st.integers(0, 20))
    case['ops'] = draw(st.lists(st.sampled_from(ALPHA[method] + ['step']), min_size=1, max_size=12))
    return case


def oracle_seq(case) -> Result:
    res = Result()
    m = Machine(case)
    for k, op in enumerate(case['ops']):
        m.apply(op, res, check=True)
        if res.discrepancies:
            for d in res.discrepancies:
                d['after_ops'] = case['ops'][:k + 1]
            return res
    res.nontrivial = len(set(case['ops'])) >= 2
    res.ev('has-frozen-masker' if m.frozen_maskers else 'no-frozen-masker',
           'with-step' if 'step' in case['ops'] else 'no-step')
    res.obs = {'steps': m.steps, 'frozen_maskers': len(m.frozen_maskers)}
    return res


CHECK = Check(
    prop='C11',
    parts=[
        Part('bfs', oracle_bfs, enumerate=enum_bfs, enum_parallel=True,
             shards={'quick': 5, 'thorough': 5},
             exhaustive_note='breadth-first over ALL call sequences up to length 3 (thorough: until no new '
                             'abstract state appears, cap 8) '
                             'with abstract-state de-duplication on 5 fixed models (2 PIT with '
                             'frozen / shared maskers and a strided Conv1d, 2 MPS, 1 SuperNet)'),
        Part('pit-seq', oracle_seq, strategy=seq_cases('pit'),
             budget={'quick': 80, 'thorough': 500}, shards={'quick': 1, 'thorough': 16}),
        Part('mps-seq', oracle_seq, strategy=seq_cases('mps'),
             budget={'quick': 60, 'thorough': 400}, shards={'quick': 1, 'thorough': 16}),
        Part('sn-seq', oracle_seq, strategy=seq_cases('supernet'),
             budget={'quick': 60, 'thorough': 400}, shards={'quick': 1, 'thorough': 16}),
    ],
    rule=("bfs: one case = the whole breadth-first exploration of one fixed model over the method's "
          "alphabet {train_nas_only, train_net_only, train_net_and_nas, train_features/rf/dilation "
          ":= T/F, discrete_cost := T/F, update_softmax_options with ONE option, step = forward + "
          "(loss + cost).backward() + SGD step}; abstract state = (requires_grad of every "
          "non-frozen parameter, sampler options, discrete flag); explored until no new abstract "
          "state appears or the depth bound. seq: Hypothesis sequences of 1..12 calls on generated "
          "models. After EVERY call: nas/net parameters partition parameters(), requires_grad "
          "equals the dict model, after a step no gradient on non-trainable parameters, frozen "
          "maskers bit-identical with no gradient, every selector's sampled coefficients obey the "
          "dict model of the options (C10's oracle). Non-trivial = bfs case, or a sequence with >= 2 "
          "distinct calls; distinct by case hash."),
    assumptions=[
        "requires_grad of frozen maskers is not compared (the baseline test "
        "test_params_trainability pins it to True after train_nas_only): 'never trainable' is "
        "decided behaviourally (no gradient, value and mask unchanged by optimizer steps)",
    ],
)
