#!/bin/sh
# Runs the repository's pinned baseline (guard off) and prints pass/fail counts.
# usage: ./tools_baseline.sh [outfile]
OUT=${1:-/tmp/baseline.$$.xml}
cd /repo && env -u EML_EDA_PLINIO_VERIF /venv/bin/python -m pytest -ra -q -p no:cacheprovider --timeout=900 --continue-on-collection-errors --junitxml="$OUT" > "$OUT.log" 2>&1
tail -3 "$OUT.log"
/venv/bin/python - "$OUT" <<'PY'
import sys, json, xml.etree.ElementTree as ET
b = json.load(open('/root/.vp/BASELINE.json'))
stable = b['stable_pass'] if isinstance(b['stable_pass'], list) else eval(b['stable_pass'])
root = ET.parse(sys.argv[1]).getroot()
passed = set()
for tc in root.iter('testcase'):
    if not any(ch.tag in ('failure', 'error', 'skipped') for ch in tc):
        cn = tc.get('classname'); n = tc.get('name')
        parts = cn.rsplit('.', 1)
        passed.add(f"{parts[0]}.{parts[1]}::{n}" if len(parts) == 2 else f"{cn}::{n}")
missing = [s for s in stable if s not in passed]
print(f"stable={len(stable)} passed_now={len(passed)} stable_missing={len(missing)}")
for m in missing[:20]:
    print("  MISSING", m)
PY
