"""Helpers for driving PIT models from NetSpec cases (imports plinio lazily)."""
from __future__ import annotations

from typing import Dict, List, Optional

from . import netgen as ng


def excluded_names(spec) -> List[str]:
    return [f"layers.{n['id']}" for n in spec['nodes'] if n.get('excl')]


def fixed_ids(spec) -> set:
    return {n['id'] for n in spec['nodes'] if n.get('excl')}


def build_pit(spec, wseed: int, xseed: int = 0, **kw):
    """Returns (user_model, pit, example_input)."""
    from plinio.methods import PIT
    net = ng.build(spec, wseed)
    x = ng.make_input(spec, xseed)
    kw.setdefault('exclude_names', excluded_names(spec))
    pit = PIT(net, input_example=x, **kw)
    return net, pit, x


def pit_layers(pit) -> Dict[str, object]:
    """node id -> PIT layer (only converted conv/linear layers)."""
    from plinio.methods.pit.nn import PITConv1d, PITConv2d, PITLinear
    out = {}
    for name, m in pit.seed.named_modules():
        if isinstance(m, (PITConv1d, PITConv2d, PITLinear)) and name.startswith('layers.'):
            out[name.split('.', 1)[1]] = m
    return out


def transplant_bn(pit, exported):
    """Gives every BatchNorm re-created by export the statistics/affine parameters of the
    BatchNorm it replaces, sliced by the layer's binarised output-feature mask (the proviso of
    property C01)."""
    import torch
    n = 0
    for name, m in pit.seed.named_modules():
        bn = getattr(m, 'bn', None)
        if bn is None or getattr(m, 'fold_bn', False) or not hasattr(m, 'features_mask'):
            continue
        try:
            new_bn = exported.get_submodule(name + '_exported_bn')
        except AttributeError:
            continue
        mask = m.features_mask.bool()
        with torch.no_grad():
            new_bn.running_mean.copy_(bn.running_mean[mask])
            new_bn.running_var.copy_(bn.running_var[mask])
            if bn.affine:
                new_bn.weight.copy_(bn.weight[mask])
                new_bn.bias.copy_(bn.bias[mask])
        n += 1
    return n


def alive_val(draw_unit: float, sign: int) -> float:
    """Maps a unit-interval draw to a clearly-alive parameter value in (0.55, 2]."""
    return sign * (0.55 + 1.45 * draw_unit)


def dead_val(draw_unit: float, sign: int) -> float:
    """Maps a unit-interval draw to a clearly-dead parameter value in [0, 0.45)."""
    return sign * (0.45 * draw_unit)


def set_feature_masks(pit, spec, group_masks: Dict[str, List[bool]], vals: Optional[dict] = None,
                      fixed: Optional[set] = None):
    """Writes the drawn alive/dead pattern of every searchable width group into the PIT model
    through ONE layer of the group (the first defining layer in node order); layers sharing the
    mask must then report the same mask - that is asserted by the callers through
    netgen.alive_masks, not here."""
    import torch
    group_of, frozen, members = ng.width_groups(spec, fixed)
    layers = pit_layers(pit)
    done = set()
    for n in spec['nodes']:
        nid = n['id']
        if nid not in layers or n['op'] == 'reuse' or ng.is_dw(n):
            continue
        g = group_of[nid]
        if g in done or g not in group_masks:
            continue
        done.add(g)
        pat = group_masks[g]
        masker = layers[nid].out_features_masker
        v = []
        for i, alive in enumerate(pat):
            mag = (vals or {}).get(g, [None] * len(pat))[i] if vals else None
            if mag is None:
                mag = 1.0 if alive else 0.0
            v.append(mag)
        with torch.no_grad():
            if masker.alpha.numel() == len(v):
                masker.alpha.copy_(torch.tensor(v, dtype=torch.float32))
    return done


def build_pit_import(spec, wseed: int, plain: set, fold_bn: bool = False, xseed: int = 0, **kw):
    """Import mode (autoconvert_layers=False): wraps make_import_model(...) with PIT."""
    from plinio.methods import PIT
    net = make_import_model(spec, wseed, plain, fold_bn)
    x = ng.make_input(spec, xseed)
    pit = PIT(net, input_example=x, autoconvert_layers=False, fold_bn=fold_bn, **kw)
    return net, pit, x


def make_import_model(spec, wseed: int, plain: set, fold_bn: bool = False):
    """The 'user's' model for import mode: every conv/linear layer whose node id is not in
    `plain` is placed as a PIT layer, with one masker per reference width group (frozen where the
    reference says the width is pinned), the way a careful user would."""
    from plinio.methods.pit.nn import PITConv1d, PITConv2d, PITLinear
    from plinio.methods.pit.nn.features_masker import PITFeaturesMasker, PITFrozenFeaturesMasker
    from plinio.methods.pit.nn.timestep_masker import PITTimestepMasker, PITFrozenTimestepMasker
    from plinio.methods.pit.nn.dilation_masker import PITDilationMasker, PITFrozenDilationMasker
    net = ng.build(spec, wseed)
    shapes = ng.infer_shapes(spec)
    group_of, frozen, members = ng.width_groups(spec, fixed=set(plain))
    maskers = {}
    from plinio.methods.pit.nn import PITBatchNorm1d, PITBatchNorm2d
    for n in spec['nodes']:
        nid = n['id']
        if n['op'] == 'bn':
            # a stand-alone BN must be searchable too, or it pins the width of what it consumes
            orig = net.layers[nid]
            net.layers[nid] = (PITBatchNorm2d if len(shapes[n['in'][0]]) == 3 else
                               PITBatchNorm1d)(orig)
            continue
        if n['op'] not in ng.LAYER_OPS or nid in plain:
            continue
        g = group_of[nid]
        if g not in maskers:
            cls = PITFrozenFeaturesMasker if g in frozen else PITFeaturesMasker
            maskers[g] = cls(shapes[nid][0])
        orig = net.layers[nid]
        if n['op'] == 'conv1d':
            K = n['k']
            tm = PITFrozenTimestepMasker(K) if n['stride'] != 1 else PITTimestepMasker(K)
            dm = PITFrozenDilationMasker(K) if n['stride'] != 1 else PITDilationMasker(K)
            new = PITConv1d(orig, maskers[g], tm, dm, fold_bn=fold_bn)
        elif n['op'] == 'conv2d':
            new = PITConv2d(orig, maskers[g], fold_bn=fold_bn)
        else:
            new = PITLinear(orig, maskers[g], fold_bn=fold_bn)
        net.layers[nid] = new
    return net
