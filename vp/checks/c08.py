"""C08 - no setting of the architectural parameters can search a layer out of existence."""
from __future__ import annotations

import math

from hypothesis import strategies as st

from .. import masks as mk
from .. import netgen as ng
from .. import pitutil as pu
from ..core import Check, Part, Result, must

ADV = [0.0, 1e-30, -1e-30, 1e-8, -1e-8, 0.49, -0.49, 0.5, -0.5, 0.51, -0.51, 1.0, -1.0,
       0.25, 0.1, 2.0, 1e30, -1e30, 3.4e38, -3.4e38, 1e-45]

value = st.one_of(
    st.sampled_from(ADV),
    st.sampled_from(ADV),
    st.floats(min_value=-4, max_value=4, allow_nan=False, width=32),
    st.floats(allow_nan=False, allow_infinity=False, width=32),
)


def profile(family, big=False):
    if family == '1d':
        return ng.Profile(family='1d', pads=('causal', 'causal', 'same', 'none'),
                          standalone_bn=True, exclude=True, reuse=True, multi_input=True, fixtures=True,
                          max_blocks=6 if big else 4, kmax=12, min_blocks=1)
    return ng.Profile(family='2d', standalone_bn=True, exclude=True, reuse=True,
                      multi_input=True, fixtures=True, max_blocks=6 if big else 4, min_blocks=1)


@st.composite
def cases(draw, big=False):
    fam = draw(st.sampled_from(['1d', '1d', '2d']))
    spec = draw(ng.netspecs(profile(fam, big)))
    shapes = ng.infer_shapes(spec)
    vals = {}
    mode = draw(st.sampled_from(['mixed', 'mixed', 'all-zero', 'all-huge', 'all-neg']))
    for n in spec['nodes']:
        if n['op'] not in ng.LAYER_OPS or n.get('excl'):
            continue
        cout = shapes[n['id']][0]

        def vec(k):
            if mode == 'all-zero':
                return [0.0] * k
            if mode == 'all-huge':
                return [1e30] * k
            if mode == 'all-neg':
                return [-0.2] * k
            return draw(st.lists(value, min_size=k, max_size=k))
        v = {'alpha': vec(cout)}
        if n['op'] == 'conv1d':
            v['beta'] = vec(n['k'])
            v['gamma'] = vec(mk.gamma_len(n['k']))
        vals[n['id']] = v
    return {'spec': spec, 'vals': vals, 'fold_bn': draw(st.booleans()),
            'wseed': draw(st.integers(0, 20))}


def oracle(case) -> Result:
    import torch
    res = Result()
    spec = case['spec']
    fixed = pu.fixed_ids(spec)
    net, pit, x0 = pu.build_pit(spec, case['wseed'], fold_bn=case['fold_bn'])
    pit.eval()
    layers = pu.pit_layers(pit)
    shapes = ng.infer_shapes(spec)
    group_of, frozen, members = ng.width_groups(spec, fixed)
    below = 0
    ws = int(case['wseed'])
    if ws % 2:
        # the model was looked at before the optimizer moved its parameters
        must(res, 'summary', pit.summary)
        must(res, 'str', str, pit)

    def write(param, values):
        t = torch.tensor(values, dtype=torch.float32)
        if (ws // 2) % 2:
            param.data.copy_(t)       # no version-counter bump (the library's own idiom)
        else:
            param.copy_(t)
    with torch.no_grad():
        for nid, v in case['vals'].items():
            if nid not in layers:
                continue
            layer = layers[nid]
            a = layer.out_features_masker.alpha
            if a.numel() == len(v['alpha']):
                write(a, v['alpha'])
                if group_of[nid] not in frozen:
                    below += sum(1 for t in v['alpha'] if abs(t) <= 0.5)
            if 'beta' in v and hasattr(layer, 'timestep_masker'):
                write(layer.timestep_masker.beta, v['beta'])
                write(layer.dilation_masker.gamma, v['gamma'])
                below += sum(1 for t in v['beta'] + v['gamma'] if abs(t) <= 0.5)
    summ = must(res, 'summary', pit.summary)
    if summ is None:
        return res
    for nid, layer in layers.items():
        s = summ[f"layers.{nid}"]
        n = ng.node_by_id(spec, nid)
        if s['out_features'] < 1 or s['in_features'] < 1:
            res.bad('layer-without-features', layer=nid, summary=s)
        if group_of[nid] in frozen and s['out_features'] != shapes[nid][0]:
            res.bad('frozen-width-changed', layer=nid, reported=s['out_features'],
                    full=shapes[nid][0])
        if 'kernel_size' in s:
            if s['kernel_size'][0] < 1:
                res.bad('empty-kernel', layer=nid, K=n['k'], summary=s)
            if s['dilation'][0] < 1:
                res.bad('dilation-below-one', layer=nid, summary=s)
    exported = must(res, 'export', pit.export)
    if exported is None:
        return res
    exported.eval()
    x = ng.make_input(spec, 3, batch=2)
    with torch.no_grad():
        y = must(res, 'exported-forward', ng.call, exported, x)
    if y is not None:
        want = (2,) + tuple(shapes[spec['out']])
        if tuple(y.shape) != want:
            res.bad('exported-output-shape', got=list(y.shape), want=list(want))
    for nid, layer in layers.items():
        em = exported.get_submodule(f"layers.{nid}")
        s = summ[f"layers.{nid}"]
        if hasattr(em, 'in_features'):
            got = (em.in_features, em.out_features)
        else:
            got = (em.in_channels, em.out_channels)
        if got != (s['in_features'], s['out_features']):
            res.bad('exported-size-differs-from-summary', layer=nid, exported=got, summary=s)
        if 'kernel_size' in s and (tuple(em.kernel_size) != tuple(s['kernel_size']) or
                                   (s['kernel_size'][0] > 1 and
                                    tuple(em.dilation) != tuple(s['dilation']))):
            res.bad('exported-kernel-differs-from-summary', layer=nid,
                    exported=[list(em.kernel_size), list(em.dilation)], summary=s)
    res.nontrivial = below > 0
    res.ev(*ng.spec_features(spec))
    res.obs = {'values_at_or_below_threshold': below,
               'summary': {k: {kk: vv for kk, vv in v.items() if kk != 'type'}
                           for k, v in list(summ.items())[:4]}}
    return res


# -- exhaustive fully-pruned / open sweep ------------------------------------------------
def enum_extremes(tier):
    for K in range(1, 13):
        G = mk.gamma_len(K)
        for stride in (1, 2):
            for d0 in (1, 2, 3):
                for pad in ('causal', 'same'):
                    if pad == 'same' and stride == 2:
                        continue
                    betas = [[0.0] * K, [1.0] * K]
                    gammas = [[0.0] * G, [1.0] * G] + [[0.0 if i == j else 1.0 for i in range(G)]
                                                       for j in range(G)]
                    for bi, beta in enumerate(betas):
                        for gi, gamma in enumerate(gammas):
                            for alpha in ([0.0] * 3, [1.0] * 3):
                                nodes = [
                                    {'id': 'n0', 'op': 'conv1d', 'in': ['x'], 'k': K, 'dil': d0,
                                     'stride': stride, 'pad': pad, 'cout': 3, 'bias': True,
                                     'bn': True, 'groups': 1},
                                    {'id': 'n1', 'op': 'relu', 'in': ['n0'], 'variant': 'mod'},
                                    {'id': 'n2', 'op': 'conv1d', 'in': ['n1'], 'k': K, 'dil': 1,
                                     'stride': 1, 'pad': pad, 'cout': 2, 'bias': False, 'bn': False,
                                     'groups': 1}]
                                spec = {'family': '1d', 'inputs': [[2, 3 * K + 4]], 'nodes': nodes,
                                        'out': 'n2'}
                                yield {'spec': spec, 'fold_bn': False, 'wseed': K,
                                       'vals': {'n0': {'alpha': alpha, 'beta': beta, 'gamma': gamma},
                                                'n2': {'alpha': [0.0, 0.0], 'beta': beta,
                                                       'gamma': gamma}}}


CHECK = Check(
    prop='C08',
    parts=[
        Part('extremes', oracle, enumerate=enum_extremes, enum_parallel=True,
             shards={'quick': 1, 'thorough': 16},
             exhaustive_note='K=1..12 x stride {1,2} x d0 {1,2,3} x padding {causal,same} x beta '
                             '{all zero, open} x gamma {all zero, open, each single element zero} x '
                             'alpha {all zero, open}'),
        Part('nets', oracle, strategy=cases(),
             budget={'quick': 250, 'thorough': 1500}, shards={'quick': 1, 'thorough': 16}),
        Part('nets-big', oracle, strategy=cases(big=True),
             budget={'quick': 0, 'thorough': 300}, shards={'quick': 1, 'thorough': 16}),
    ],
    rule=("Generated NetSpec networks (C01 grammar + same-padded Conv1d, stand-alone BN, twice-"
          "applied layers, kernels up to 12) where EVERY mask parameter (alpha, beta, gamma, also "
          "of frozen maskers) is drawn from an adversarial real set {0, +-tiny, +-0.49, +-0.5, "
          "+-0.51, +-1, +-1e30, +-3.4e38, arbitrary float32} or set uniformly to 0 / 1e30 / "
          "negative. Non-trivial = at least one value of a non-frozen masker is at or below the "
          "binarisation threshold in magnitude; distinct by case hash."),
    assumptions=[
        "NaN and infinities are not real values and are excluded",
        "frozen width = reference width-group analysis of the NetSpec (input/output connected, "
        "feeding or sharing with excluded layers)",
    ],
)
