"""C12 - cost is a differentiable, monotone function of the architecture only."""
from __future__ import annotations

import copy
import math

from hypothesis import strategies as st

from .. import mpsutil as mu
from .. import netgen as ng
from .. import pitutil as pu
from .. import refcost
from .. import snutil as su
from ..core import Check, Part, Result, must, safe_grad

PIT_1D = ['params', 'params_no_bias', 'ops', 'ops_no_bias']
PIT_2D = PIT_1D + ['gap8_latency', 'gap8_latency']
MPS_METRICS = ['params_bit', 'ops_bit', 'mpic_latency', 'ne16_latency']


def _spec_obj(name):
    import plinio.cost as pc
    return getattr(pc, name)


def _finite_nonneg(res, what, v, **ctx):
    f = float(v)
    if not math.isfinite(f):
        res.bad('cost-not-finite', where=what, **ctx)
        return False
    if f < 0:
        res.bad('cost-negative', where=what, value=f, **ctx)
        return False
    return True


def perturb_net(model, pseed, names_filter=None):
    """Randomly perturbs weights, biases and BN statistics/affine (never selection params)."""
    import torch
    g = ng._gen(pseed, 'perturb')
    with torch.no_grad():
        for name, p in list(model.named_parameters()) + list(model.named_buffers()):
            last = name.rsplit('.', 1)[-1]
            if last in ('weight', 'bias', 'running_mean'):
                p.add_(torch.randn(p.shape, generator=g) * 0.3)
            elif last == 'running_var':
                p.mul_(1 + torch.rand(p.shape, generator=g))


def grads_to_net_params(res, cost, model, nas_ids):
    """No gradient may reach weights / biases / BN parameters."""
    import torch
    net = [(n, p) for n, p in model.named_parameters()
           if id(p) not in nas_ids and p.requires_grad and
           n.rsplit('.', 1)[-1] in ('weight', 'bias')]
    if not net or not cost.requires_grad:
        return
    gs = safe_grad(res, 'cost-gradient', cost, [p for _, p in net])
    for (n, _), g in zip(net, gs):
        if g is not None and float(g.abs().max()) != 0:
            res.bad('cost-gradient-reaches-network-weights', param=n)
            return


# ----------------------------------------------------------------------------------------
# PIT
# ----------------------------------------------------------------------------------------
mag = st.one_of(st.floats(min_value=1e-3, max_value=2.0), st.sampled_from([0.25, 0.5, 0.75, 1.0]))


@st.composite
def pit_cases(draw):
    fam = draw(st.sampled_from(['1d', '2d']))
    spec = draw(ng.netspecs(ng.Profile(
        family=fam, pads=('causal', 'same', 'none'), exclude=True, reuse=True, multi_input=True,
        max_blocks=4, min_blocks=2, kmax=9, fixtures=True)))
    pool = PIT_1D if fam == '1d' else PIT_2D
    costs = draw(st.lists(st.sampled_from(pool), min_size=1, max_size=2, unique=True))
    return {'spec': spec, 'costs': costs, 'dict': len(costs) > 1 or draw(st.booleans()),
            'full_cost': draw(st.booleans()), 'fold_bn': draw(st.booleans()),
            'wseed': draw(st.integers(0, 30)), 'pseed': draw(st.integers(0, 10 ** 6)),
            'vseed': draw(st.integers(0, 10 ** 6)),
            'mode': draw(st.sampled_from(['uniform', 'uniform', 'low', 'binary', 'closed'])),
            # the same specification is assigned again while the masks are partly closed
            'reassign': draw(st.booleans())}


def pit_values(pit, vseed, mode, tag):
    """A real value for every element of every mask parameter: {param name: tensor}."""
    import torch
    out = {}
    for name, p in pit.named_nas_parameters():
        g = ng._gen(vseed, f"{tag}/{name}")
        u = torch.rand(p.shape, generator=g)
        if mode == 'closed':
            v = 0.02 + u * 0.4          # every mask element below the threshold (keep-alive only)
        elif mode == 'low':
            v = 0.05 + u * 0.6
        elif mode == 'binary':
            v = torch.where(u < 0.5, 0.05 + 0.3 * u, 0.7 + u)
        else:
            v = 0.01 + u * 1.8
        sign = (torch.randint(0, 2, p.shape, generator=g) * 2 - 1).float()
        out[name] = v * sign
    return out


def pit_set(pit, vals):
    import torch
    with torch.no_grad():
        for name, p in pit.named_nas_parameters():
            p.copy_(vals[name])


def oracle_pit(case) -> Result:
    import torch
    res = Result()
    spec = case['spec']
    names = case['costs']
    cost = {n: _spec_obj(n) for n in names} if case['dict'] else _spec_obj(names[0])
    net, pit, x0 = pu.build_pit(spec, case['wseed'], cost=cost, full_cost=case['full_cost'],
                                fold_bn=case['fold_bn'])
    pit.train()
    pit.train_net_and_nas()

    def get(name):
        return pit.get_cost(name) if case['dict'] else pit.cost

    # the cost is a function of the architectural parameters only: the values read now, with
    # every mask open, must come back when the masks are opened again at the end of the case
    open_vals = {n: p.detach().clone() for n, p in pit.named_nas_parameters()}
    open_costs = {}
    for name in names:
        for disc in (False, True):
            pit.discrete_cost = disc
            c0 = must(res, 'cost', get, name)
            if c0 is None:
                return res
            open_costs[(name, disc)] = float(c0)
    # all masks open -> cost of the original model (hardware-independent metrics)
    for name in names:
        if name.startswith('gap8'):
            continue
        counted = {f"layers.{k}" for k in pu.pit_layers(pit)}
        if case['full_cost']:
            counted |= {f"layers.{n['id']}" for n in spec['nodes'] if n.get('excl')}
        exp0 = must(res, 'export', pit.export)
        if exp0 is None:
            return res
        ref = float(refcost.measure(exp0.eval(), x0, counted)[name])
        pit.train()
        for disc in (False, True):
            pit.discrete_cost = disc
            c = must(res, 'cost', get, name)
            if c is None:
                return res
            if abs(float(c) - ref) > 1e-4 * max(1.0, ref):
                res.bad('open-masks-cost-differs-from-original-model', metric=name, discrete=disc,
                        cost=float(c), reference=ref)
    vals = pit_values(pit, case['vseed'], case['mode'], 'p')
    bigger = {k: v * (1 + torch.rand(v.shape, generator=ng._gen(case['vseed'], 'q/' + k)))
              + torch.sign(v) * 0.05 for k, v in vals.items()}
    nas_ids = {id(p) for p in pit.nas_parameters()}
    # masks frozen by construction are not search variables (their value is read detached)
    frozen_ids = {id(p) for m in pit.modules() if type(m).__name__.startswith('PITFrozen')
                  for p in m.parameters(recurse=False)}
    trainable = [(n, p) for n, p in pit.named_nas_parameters()
                 if p.requires_grad and id(p) not in frozen_ids]
    checked_fd = 0
    reassign = bool(case.get('reassign')) or any(ng.is_dw(n) for n in spec['nodes'])
    if reassign:
        # (always when a depthwise layer is present: its pattern constraint reads channel counts)
        pit_set(pit, vals)
        pit.cost_specification = cost
    for name in names:
        for disc in (False, True):
            pit.discrete_cost = disc
            pit_set(pit, vals)
            c = must(res, 'cost', get, name)
            if c is None:
                return res
            if not _finite_nonneg(res, 'pit', c, metric=name, discrete=disc):
                return res
            if trainable and not c.requires_grad:
                res.bad('cost-has-no-gradient-path-to-the-masks', metric=name, discrete=disc,
                        trainable_masks=len(trainable))
                return res
            if trainable and c.requires_grad:
                gs = safe_grad(res, 'cost-gradient', c, [p for _, p in trainable])
                for (pn, _), g in zip(trainable, gs):
                    if g is not None and not bool(torch.isfinite(g).all()):
                        res.bad('cost-gradient-not-finite', metric=name, discrete=disc, param=pn)
                grads_to_net_params(res, c, pit, nas_ids)
                # non-zero gradient where raising the parameter raises the (continuous) metric
                if not disc:
                    cf = float(c)
                    pick = ng._gen(case['vseed'], 'pick')
                    for (pn, p), g in list(zip(trainable, gs))[:8]:
                        i = int(torch.randint(0, p.numel(), (1,), generator=pick))
                        old = float(p.detach().flatten()[i])
                        if p.detach().flatten()[i].abs() < 1e-3:
                            continue
                        delta = 0.02 * (1 if old > 0 else -1)        # raises the magnitude
                        with torch.no_grad():
                            p.view(-1)[i] += delta
                        c2 = float(get(name))
                        with torch.no_grad():
                            p.view(-1)[i] = old
                        checked_fd += 1
                        gi = 0.0 if g is None else float(g.flatten()[i])
                        if c2 - cf > 1e-5 * max(1.0, cf) and gi == 0.0:
                            res.bad('zero-gradient-although-raising-the-mask-raises-the-cost',
                                    metric=name, param=pn, index=i, cost=cf, cost_after=c2)
                        elif name in ('params', 'ops', 'params_no_bias', 'ops_no_bias') and \
                                c2 - cf > 2e-4 * max(1.0, cf):
                            # these metrics are polynomials of low degree in every mask parameter:
                            # the gradient explains the finite difference (a gradient path that
                            # is only partly there - e.g. through the consumer but not through
                            # the layer itself - shows up here)
                            lin = gi * delta
                            if abs(lin - (c2 - cf)) > 0.08 * abs(c2 - cf):
                                res.bad('gradient-differs-from-finite-difference', metric=name,
                                        param=pn, index=i, predicted=lin, observed=c2 - cf)
                # discrete cost: pushing a mask element across the binarisation threshold raises
                # the metric => the straight-through gradient at the current point is non-zero
                if disc:
                    cf = float(c)
                    pick = ng._gen(case['vseed'], 'pick-d')
                    for (pn, p), g in list(zip(trainable, gs))[:8]:
                        i = int(torch.randint(0, p.numel(), (1,), generator=pick))
                        old = float(p.detach().flatten()[i])
                        if abs(old) < 1e-3:
                            continue
                        with torch.no_grad():
                            p.view(-1)[i] = (abs(old) + 0.7) * (1 if old > 0 else -1)
                        c2 = float(get(name))
                        with torch.no_grad():
                            p.view(-1)[i] = old
                        checked_fd += 1
                        gi = 0.0 if g is None else float(g.flatten()[i])
                        if c2 - cf > 1e-5 * max(1.0, cf) and gi == 0.0:
                            res.bad('zero-straight-through-gradient-although-unmasking-raises-'
                                    'the-discrete-cost', metric=name, param=pn, index=i, cost=cf,
                                    cost_after=c2)
            # independence from weights and data
            snap = float(c)
            perturb_net(pit, case['pseed'])
            with torch.no_grad():
                must(res, 'forward', ng.call, pit, ng.make_input(spec, case['pseed'] % 97, batch=3))
            c3 = float(get(name))
            if c3 != snap:
                res.bad('cost-depends-on-weights-or-data', metric=name, discrete=disc, before=snap,
                        after=c3)
            # monotone in the magnitude of every mask parameter
            pit_set(pit, bigger)
            cq = float(get(name))
            if cq < snap - 1e-5 * max(1.0, abs(snap)):
                res.bad('cost-decreases-when-mask-magnitudes-grow', metric=name, discrete=disc,
                        smaller=snap, larger=cq)
            if res.discrepancies:
                return res
    # the other extreme: every mask parameter at zero (only the keep-alive elements survive)
    pit_set(pit, {n: torch.zeros_like(p) for n, p in pit.named_nas_parameters()})
    for name in names:
        for disc in (False, True):
            pit.discrete_cost = disc
            cz = must(res, 'cost', get, name)
            if cz is None or not _finite_nonneg(res, 'pit', cz, metric=name, discrete=disc,
                                                masks='all-zero'):
                return res
    pit_set(pit, open_vals)
    for (name, disc), want in open_costs.items():
        pit.discrete_cost = disc
        c1 = must(res, 'cost', get, name)
        if c1 is None:
            return res
        if float(c1) != want:
            res.bad('cost-with-the-masks-opened-again-differs-from-the-first-reading', metric=name,
                    discrete=disc, first=want, now=float(c1),
                    specification_reassigned=reassign)
            return res
    res.nontrivial = bool(trainable)
    res.ev(*[f"metric:{n}" for n in names], 'mode:' + case['mode'],
           'spec-reassigned-on-closed-masks' if reassign else 'spec-assigned-once',
           'full_cost' if case['full_cost'] else 'nas_cost', *ng.spec_features(spec))
    res.obs = {'finite_difference_probes': checked_fd, 'trainable_mask_tensors': len(trainable)}
    return res


# ----------------------------------------------------------------------------------------
# SuperNet
# ----------------------------------------------------------------------------------------
@st.composite
def sn_cases(draw):
    spec = draw(su.sn_specs(max_sn=2, functional_tail=True, max_branches=5))
    for n in su.sn_nodes(spec):
        n['gumbel'] = False
    costs = draw(st.lists(st.sampled_from(PIT_1D), min_size=1, max_size=2, unique=True))
    return {'spec': spec, 'costs': costs, 'dict': len(costs) > 1 or draw(st.booleans()),
            'full_cost': draw(st.booleans()), 'wseed': draw(st.integers(0, 30)),
            'aseed': draw(st.integers(0, 10 ** 6)), 'pseed': draw(st.integers(0, 10 ** 6)),
            'temperature': draw(st.sampled_from([0.3, 1.0, 3.0]))}


def oracle_sn(case) -> Result:
    import torch
    res = Result()
    spec = case['spec']
    names = case['costs']
    cost = {n: _spec_obj(n) for n in names} if case['dict'] else _spec_obj(names[0])
    net, sn, x0 = su.build_sn(spec, case['wseed'], cost=cost, full_cost=case['full_cost'])
    sn.train()
    sn.train_net_and_nas()
    sn.update_softmax_options(temperature=case['temperature'], hard=False)
    combs = su.combiners(sn)
    with torch.no_grad():
        for nid, c in combs.items():
            c.alpha.copy_(mu.scores(c.n_branches, None, case['aseed'], nid))

    def get(name):
        return sn.get_cost(name) if case['dict'] else sn.cost
    nas_ids = {id(p) for p in sn.nas_parameters()}
    fd = 0
    for name in names:
        sn(x0)
        c = must(res, 'cost', get, name)
        if c is None or not _finite_nonneg(res, 'supernet', c, metric=name):
            return res
        alphas = [(nid, cb.alpha) for nid, cb in combs.items()]
        if not c.requires_grad:
            res.bad('cost-has-no-gradient-path-to-selection-coefficients', metric=name)
            return res
        gs = safe_grad(res, 'cost-gradient', c, [a for _, a in alphas])
        for (nid, a), g in zip(alphas, gs):
            if g is not None and not bool(torch.isfinite(g).all()):
                res.bad('cost-gradient-not-finite', metric=name, block=nid)
        grads_to_net_params(res, c, sn, nas_ids)
        cf = float(c)
        for (nid, a), g in zip(alphas, gs):
            for i in range(a.numel()):
                with torch.no_grad():
                    a[i] += 0.05
                sn(x0)
                c2 = float(get(name))
                with torch.no_grad():
                    a[i] -= 0.05
                fd += 1
                gi = 0.0 if g is None else float(g[i])
                if c2 - cf > 1e-5 * max(1.0, cf) and gi == 0.0:
                    res.bad('zero-gradient-although-raising-the-coefficient-raises-the-cost',
                            metric=name, block=nid, branch=i)
        sn(x0)
        snap = float(get(name))
        perturb_net(sn, case['pseed'])
        sn(ng.make_input(spec, case['pseed'] % 89, batch=3))
        if float(get(name)) != snap:
            res.bad('cost-depends-on-weights-or-data', metric=name, before=snap,
                    after=float(get(name)))
        if res.discrepancies:
            return res
    if case['dict'] and len(names) > 1:
        # 'the architecture only': a metric of a dictionary specification has the value it has on
        # an identically built model that knows this metric alone, whatever was read before it
        for name in reversed(names):
            _, sn1, _ = su.build_sn(spec, case['wseed'], cost=_spec_obj(name),
                                    full_cost=case['full_cost'])
            sn1.train()
            sn1.update_softmax_options(temperature=case['temperature'], hard=False)
            with torch.no_grad():
                for nid, c1 in su.combiners(sn1).items():
                    c1.alpha.copy_(combs[nid].alpha)
            sn1(x0)
            sn(x0)
            a, b = float(get(name)), float(sn1.cost)
            if abs(a - b) > 1e-5 * max(1.0, abs(b)):
                res.bad('metric-of-a-dictionary-differs-from-the-same-metric-alone', metric=name,
                        in_dictionary=a, alone=b, read_order=names)
    res.nontrivial = True
    res.ev(*[f"metric:{n}" for n in names])
    res.obs = {'finite_difference_probes': fd}
    return res


# ----------------------------------------------------------------------------------------
# MPS
# ----------------------------------------------------------------------------------------
@st.composite
def mps_cases(draw):
    costs = draw(st.lists(st.sampled_from(MPS_METRICS), min_size=1, max_size=2, unique=True))
    ne16 = 'ne16_latency' in costs
    prof = mu.profile()
    if ne16:
        prof.two_d_k = (1, 3)
    spec = draw(ng.netspecs(prof))
    if ne16:
        shapes = ng.infer_shapes(spec)
        for n in spec['nodes']:
            o2o = n['op'] == 'conv2d' and n['cout'] == 1 and shapes[n['in'][0]][0] == 1
            if (ng.is_dw(n) or o2o) and n['k'] == 1:
                n['k'], n['p'] = 3, 1
    per_channel = draw(st.booleans())
    w_prec = draw(mu.precisions)
    if per_channel and draw(st.booleans()):
        w_prec = w_prec + [0]
    return {'spec': spec, 'costs': costs, 'dict': len(costs) > 1 or draw(st.booleans()),
            'per_channel': per_channel, 'w_prec': w_prec,
            'a_prec': [8] if ne16 else draw(mu.precisions),
            'wseed': draw(st.integers(0, 30)), 'aseed': draw(st.integers(0, 10 ** 6)),
            'pseed': draw(st.integers(0, 10 ** 6)),
            'temperature': draw(st.sampled_from([0.3, 1.0, 3.0]))}


def oracle_mps(case) -> Result:
    import torch
    res = Result()
    spec = case['spec']
    names = case['costs']
    cost = {n: _spec_obj(n) for n in names} if case['dict'] else _spec_obj(names[0])
    mps, x0 = mu.build_mps(spec, case['wseed'], case['w_prec'], case['a_prec'],
                           per_channel=case['per_channel'], cost=cost,
                           temperature=case['temperature'])
    mu.set_coefficients(mps, case['aseed'])
    mps.train()
    mps.train_net_and_nas()
    ctx = {'float_input_layers': mu.float_input_layers(spec)}

    def get(name):
        return mps.get_cost(name) if case['dict'] else mps.cost
    nas_ids = {id(p) for p in mps.nas_parameters()}
    fd = 0
    for name in names:
        x = mu.mps_input(spec, 1)
        mps(x)
        c = must(res, 'cost', get, name, )
        if c is None:
            for d in res.discrepancies:
                d.update(ctx, metric=name)
            return res
        if not _finite_nonneg(res, 'mps', c, metric=name, **ctx):
            return res
        wq = {}
        for qn, q in mu.quantizers(mps).items():
            if qn.endswith('w_mps_quantizer') and q.alpha.shape[0] > 1:
                wq.setdefault(id(q), (qn, q))
        alphas = [(qn, q.alpha) for qn, q in wq.values()]
        if alphas and c.requires_grad:
            gs = safe_grad(res, 'cost-gradient', c, [a for _, a in alphas])
            for (qn, a), g in zip(alphas, gs):
                if g is not None and not bool(torch.isfinite(g).all()):
                    res.bad('cost-gradient-not-finite', metric=name, selector=qn)
            grads_to_net_params(res, c, mps, nas_ids)
            cf = float(c)
            pick = ng._gen(case['aseed'], 'pick')
            for (qn, a), g in list(zip(alphas, gs))[:6]:
                i = int(torch.randint(0, a.numel(), (1,), generator=pick))
                old = float(a.detach().view(-1)[i])
                # 'its increase raises the metric' must hold at every scale: cost models that
                # round to whole cycles (NE16 on small layers) are piecewise constant - flat
                # around the point, with jumps further away - and a zero gradient is then right
                raised = []
                for delta in (0.005, 0.05, 0.5):
                    with torch.no_grad():
                        a.view(-1)[i] = old + delta
                    mps(x)
                    raised.append(float(get(name)))
                # ... and the point must not sit just below a jump: a small DEcrease lowers it
                with torch.no_grad():
                    a.view(-1)[i] = old - 0.005
                mps(x)
                lowered = float(get(name))
                with torch.no_grad():
                    a.view(-1)[i] = old
                c2 = raised[1]
                fd += 1
                gi = 0.0 if g is None else float(g.flatten()[i])
                tol = 1e-5 * max(1.0, cf)
                if all(v - cf > tol for v in raised) and cf - lowered > tol and gi == 0.0:
                    res.bad('zero-gradient-although-raising-the-coefficient-raises-the-cost',
                            metric=name, selector=qn, index=i, cost=cf, cost_after=c2)
        # one-hot coefficients (hard sampling): value and gradients must stay finite although
        # the unselected precisions have a coefficient of exactly zero
        mps.update_softmax_options(hard=True)
        mps(x)
        ch = must(res, 'cost', get, name)
        if ch is not None:
            if not _finite_nonneg(res, 'mps', ch, metric=name, sampling='hard', **ctx):
                return res
            if alphas and c.requires_grad and not ch.requires_grad:
                # the soft-sampled cost of this model reaches the coefficients: the hard-sampled
                # one (straight-through arg-max) must reach them too
                res.bad('hard-sampled-cost-has-no-gradient-path-to-the-coefficients', metric=name,
                        **ctx)
                return res
            if alphas and ch.requires_grad:
                gh = safe_grad(res, 'cost-gradient', ch, [a for _, a in alphas])
                for (qn, a), g in zip(alphas, gh):
                    if g is not None and not bool(torch.isfinite(g).all()):
                        res.bad('cost-gradient-not-finite', metric=name, selector=qn,
                                sampling='hard')
        mps.update_softmax_options(hard=False)
        mps(x)
        snap = float(get(name))
        perturb_net(mps, case['pseed'])
        mps(mu.mps_input(spec, 2, batch=3))
        if float(get(name)) != snap:
            res.bad('cost-depends-on-weights-or-data', metric=name, before=snap,
                    after=float(get(name)))
        if res.discrepancies:
            return res
    res.nontrivial = True
    res.ev(*[f"metric:{n}" for n in names], 'per-channel' if case['per_channel'] else 'per-layer',
           'has-float-input-layer' if ctx['float_input_layers'] else 'all-inputs-quantised')
    res.obs = {'finite_difference_probes': fd}
    return res


def c12_float_input(part, case, disc) -> bool:
    """Known finding D23: a layer fed by a tensor of the un-quantised output-connected component
    is charged with in_precision = -1: ops_bit turns negative, mpic / ne16 reject the value."""
    if part != 'mps' or not disc.get('float_input_layers'):
        return False
    k = disc.get('kind', '')
    if k == 'cost-negative' and disc.get('metric') == 'ops_bit':
        return True
    if k.startswith('cost:raised:AssertionError@plinio/cost/') and \
            disc.get('metric') in ('mpic_latency', 'ne16_latency'):
        return True
    return False


# ----------------------------------------------------------------------------------------
# ODiMO
# ----------------------------------------------------------------------------------------
@st.composite
def odimo_cases(draw):
    prof = mu.profile()
    prof.dw = False
    spec = mu.fix_tail(draw(ng.netspecs(prof)))
    return {'spec': spec, 'wseed': draw(st.integers(0, 30)), 'aseed': draw(st.integers(0, 10 ** 6)),
            'pseed': draw(st.integers(0, 10 ** 6))}


def oracle_odimo(case) -> Result:
    import torch
    from plinio.methods import ODiMO_MPS
    from plinio.methods.odimo_mps.odimo_mps import get_default_qinfo
    res = Result()
    spec = case['spec']
    net = ng.build(spec, case['wseed'])
    x0 = ng.make_input(spec, 0).abs().clamp(max=1.0)
    od = must(res, 'odimo-constructor', ODiMO_MPS, copy.deepcopy(net), input_example=x0,
              qinfo=get_default_qinfo((2, 8), (8,)))
    if od is None:
        return res
    mu.set_coefficients(od, case['aseed'])
    od.train()
    od(x0)
    c = must(res, 'odimo-cost', lambda: od.cost)
    if c is None:
        return res
    if not _finite_nonneg(res, 'odimo', c):
        return res
    nas_ids = {id(p) for p in od.nas_parameters()}
    alphas = [q.alpha for qn, q in mu.quantizers(od).items() if qn.endswith('w_mps_quantizer')]
    if c.requires_grad and alphas:
        gs = safe_grad(res, 'cost-gradient', c, alphas)
        for g in gs:
            if g is not None and not bool(torch.isfinite(g).all()):
                res.bad('cost-gradient-not-finite', where='odimo')
        grads_to_net_params(res, c, od, nas_ids)
    snap = float(c)
    perturb_net(od, case['pseed'])
    od(x0 * 0.5)
    if float(od.cost) != snap:
        res.bad('cost-depends-on-weights-or-data', where='odimo')
    res.nontrivial = True
    return res


def c12_odimo(part, case, disc) -> bool:
    """Known finding D16: ODiMO_MPS.cost cannot be evaluated with its defaults."""
    if part != 'odimo':
        return False
    k = disc.get('kind', '')
    return k.startswith('odimo-cost:raised:') and (
        'odimo_mps_latency_reduction' in k or 'diana_latency' in k)


CHECK = Check(
    prop='C12',
    parts=[
        Part('pit', oracle_pit, strategy=pit_cases(),
             budget={'quick': 200, 'thorough': 600}, shards={'quick': 1, 'thorough': 16}),
        Part('supernet', oracle_sn, strategy=sn_cases(),
             budget={'quick': 80, 'thorough': 400}, shards={'quick': 1, 'thorough': 16}),
        Part('mps', oracle_mps, strategy=mps_cases(),
             budget={'quick': 120, 'thorough': 600}, shards={'quick': 1, 'thorough': 16}),
        Part('odimo', oracle_odimo, strategy=odimo_cases(),
             budget={'quick': 25, 'thorough': 100}, shards={'quick': 1, 'thorough': 4}),
    ],
    rule=("pit: NetSpec networks with params/ops(+no-bias)/gap8 as single spec or dictionary, "
          "full_cost and fold_bn on/off, EVERY mask parameter set to a drawn real value (uniform / "
          "low / near-binary magnitudes, random signs); checks: open masks == original model, "
          "finite >= 0 (continuous and discrete), finite gradients to trainable masks, none to "
          "weights, forward-difference probes (raising a magnitude raises the cost => autograd "
          "component non-zero), bit-equal cost after perturbing all weights / BN statistics and "
          "feeding another input, cost(p) <= cost(q) for |p| <= |q| component-wise. supernet / mps: "
          "same finiteness, gradient, probe and independence checks on selection coefficients "
          "(params_bit, ops_bit, mpic, ne16 with 8-bit activations; per-layer and per-channel with "
          "optional 0-bit). odimo: ODiMO_MPS with its defaults (w in {2,8}, a=8). Non-trivial = the "
          "model has at least one trainable architectural parameter; distinct by case hash."),
    assumptions=[
        "probed mask elements have magnitude >= 1e-3 (|.| is not differentiable at 0)",
        "MPS clause 'no gradient to network weights' is asserted for weights and biases (the PACT "
        "clip values are architectural parameters in this library)",
        "Gumbel sampling off (cost is then a deterministic function of the coefficients)",
    ],
    classifiers={'c12_float_input': c12_float_input, 'c12_odimo': c12_odimo},
)
