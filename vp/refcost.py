"""From-scratch cost evaluation on plain nn.Modules (no plinio import).

measure(model, x, names) runs `model` once on `x` with forward hooks and returns, for the
conv/linear layers whose qualified name is in `names` (all of them when names is None):

  params          sum over UNIQUE layer objects of weight.numel() + bias.numel()   (actual tensors)
  params_no_bias  sum over unique layers of weight.numel()
  ops             sum over CALL SITES of out_positions * cout * (cin/groups * prod(k) + [bias])
  ops_no_bias     the same without the bias term
  layers          per-name records {kind, cin, cout, groups, k, bias, calls:[out_shape,...]}
"""
from __future__ import annotations

import math
from typing import Dict, Iterable, Optional


def measure(model, x, names: Optional[Iterable[str]] = None) -> Dict:
    import torch
    import torch.nn as nn
    names = None if names is None else set(names)
    recs = {}
    hooks = []
    for name, m in model.named_modules():
        if type(m) in (nn.Conv1d, nn.Conv2d, nn.Linear) and (names is None or name in names):
            rec = {'kind': type(m).__name__, 'bias': m.bias is not None, 'calls': [],
                   'weight_numel': m.weight.numel(),
                   'bias_numel': 0 if m.bias is None else m.bias.numel()}
            if isinstance(m, nn.Linear):
                rec.update(cin=m.in_features, cout=m.out_features, groups=1, k=())
            else:
                rec.update(cin=m.in_channels, cout=m.out_channels, groups=m.groups,
                           k=tuple(m.kernel_size), stride=tuple(m.stride),
                           dilation=tuple(m.dilation), padding=m.padding)
            recs[name] = rec

            def hook(mod, inp, out, _rec=rec):
                _rec['calls'].append(tuple(out.shape))
            hooks.append(m.register_forward_hook(hook))
    with torch.no_grad():
        y = model(*x) if isinstance(x, tuple) else model(x)
    for h in hooks:
        h.remove()
    tot = {'params': 0, 'params_no_bias': 0, 'ops': 0, 'ops_no_bias': 0}
    for name, r in recs.items():
        tot['params'] += r['weight_numel'] + r['bias_numel']
        tot['params_no_bias'] += r['weight_numel']
        per_out = (r['cin'] // r['groups']) * (math.prod(r['k']) if r['k'] else 1)
        for shp in r['calls']:
            positions = math.prod(shp[2:]) if r['kind'] != 'Linear' else 1
            tot['ops'] += positions * r['cout'] * (per_out + (1 if r['bias'] else 0))
            tot['ops_no_bias'] += positions * r['cout'] * per_out
    tot['layers'] = recs
    tot['output_shape'] = tuple(y.shape)
    return tot
