"""C07 - importing a model is behaviour-preserving and leaves the user model intact."""
from __future__ import annotations

import copy

from hypothesis import strategies as st

from .. import mpsutil as mu
from .. import netgen as ng
from .. import pitutil as pu
from .. import snutil as su
from ..core import Check, Part, Result, must

TOL = 1e-5


def _state(model):
    return {k: v.detach().clone() for k, v in model.state_dict().items()}


def _state_diff(a, b, params_before=None, params_after=None):
    """Every entry present before must still be there, bit-equal, and the set of PARAMETERS must
    be unchanged (new buffers are not 'parameters or outputs' of the user's model)."""
    import torch
    if set(a) - set(b):
        return {'keys_removed': sorted(set(a) - set(b))[:4]}
    if params_before is not None and params_before != params_after:
        return {'parameters_added': sorted(set(params_after) - set(params_before))[:4],
                'parameters_removed': sorted(set(params_before) - set(params_after))[:4]}
    for k in a:
        if a[k].shape != b[k].shape or not torch.equal(a[k], b[k]):
            return {'changed': k}
    return None


def _modes(wrapper):
    return [(n, m.training) for n, m in wrapper.named_modules()]


# ----------------------------------------------------------------------------------------
# PIT
# ----------------------------------------------------------------------------------------
@st.composite
def pit_cases(draw):
    fam = draw(st.sampled_from(['1d', '2d']))
    spec = draw(ng.netspecs(ng.Profile(
        family=fam, pads=('causal', 'same', 'none', 'valid'), standalone_bn=True, exclude=True, reuse=True,
        multi_input=True, max_blocks=4, min_blocks=1, fixtures=True)))
    mode = draw(st.sampled_from(['auto', 'auto', 'auto', 'import']))
    plain = []
    if mode == 'import':
        for n in spec['nodes']:
            n.pop('excl', None)
        lay = [n['id'] for n in spec['nodes'] if n['op'] in ng.LAYER_OPS]
        plain = [i for i in lay if draw(st.integers(0, 2)) == 0]
    return {'spec': spec, 'mode': mode, 'plain': plain, 'fold_bn': draw(st.booleans()),
            'train_mode': draw(st.booleans()), 'wseed': draw(st.integers(0, 50)),
            'xseed': draw(st.integers(0, 50))}


def _arch(model):
    """Layer types and hyper-parameters of every conv / linear / BN leaf, by qualified name."""
    import torch.nn as nn
    out = {}
    for name, m in model.named_modules():
        if isinstance(m, (nn.Conv1d, nn.Conv2d)):
            out[name] = ('conv%dd' % (1 if isinstance(m, nn.Conv1d) else 2), m.in_channels,
                         m.out_channels, tuple(m.kernel_size), tuple(m.stride),
                         m.padding if isinstance(m.padding, str) else tuple(m.padding),
                         tuple(m.dilation), m.groups, m.bias is not None)
        elif isinstance(m, nn.Linear):
            out[name] = ('linear', m.in_features, m.out_features, m.bias is not None)
        elif isinstance(m, (nn.BatchNorm1d, nn.BatchNorm2d)):
            out[name] = ('bn', m.num_features)
    return out


def oracle_pit(case) -> Result:
    import torch
    from plinio.methods import PIT
    res = Result()
    spec = case['spec']
    x = ng.make_input(spec, case['xseed'], batch=2)
    import_mode = case['mode'] == 'import'
    if import_mode:
        # the user's model already contains PIT layers
        model = pu.make_import_model(spec, case['wseed'], set(case['plain']),
                                     fold_bn=case['fold_bn'])
    else:
        model = ng.build(spec, case['wseed'])
    model.train(case['train_mode'])
    ref = copy.deepcopy(model).eval()
    with torch.no_grad():
        y0 = ng.call(ref, x)
    before = _state(model)
    params_before = [n for n, _ in model.named_parameters()]
    arch0 = _arch(ref)
    x0 = ng.make_input(spec, 0)
    kw = dict(input_example=x0, fold_bn=case['fold_bn'])
    if import_mode:
        kw['autoconvert_layers'] = False
    else:
        kw['exclude_names'] = pu.excluded_names(spec)
    pit = must(res, 'PIT-constructor', PIT, model, **kw)
    if pit is None:
        return res
    user_bn_layers = [n['id'] for n in spec['nodes'] if n.get('bn') and n['op'] in ng.LAYER_OPS
                      and n['id'] not in case['plain']]
    ctx = {'import_mode': import_mode, 'user_placed_layer_followed_by_bn': bool(
        import_mode and user_bn_layers)}
    # (3) the wrapper keeps the mode it found
    wrong = [n for n, t in _modes(pit) if t != case['train_mode']]
    if wrong:
        res.bad('wrapper-mode-differs-from-mode-found', found='train' if case['train_mode']
                else 'eval', modules=wrong[:5])
    # (4) the caller's object is untouched
    d = _state_diff(before, _state(model), params_before,
                    [n for n, _ in model.named_parameters()])
    if d:
        res.bad('user-model-state-dict-changed', **d, **ctx)
    if set(_state(model)) - set(before):
        res.ev('conversion-added-buffers-to-user-model')
    with torch.no_grad():
        y_user = must(res, 'user-model-forward', ng.call, copy.deepcopy(model).eval(), x)
    if y_user is not None and (y_user.shape != y0.shape or not torch.equal(y_user, y0)):
        res.bad('user-model-output-changed', max_abs=float((y_user - y0).abs().max())
                if y_user.shape == y0.shape else 'shape', **ctx)
    # (1) wrapped model == original in eval mode
    pit.eval()
    with torch.no_grad():
        y1 = must(res, 'pit-forward', ng.call, pit, x)
    scale = 1.0 + float(y0.abs().max())
    if y1 is not None and (y1.shape != y0.shape or float((y1 - y0).abs().max()) > TOL * scale):
        res.bad('wrapped-model-output-differs-from-original',
                max_abs=float((y1 - y0).abs().max()) if y1.shape == y0.shape else 'shape',
                fold_bn=case['fold_bn'], **ctx)
    # (2) immediate export: original architecture (+ function once BN statistics are transplanted)
    exported = must(res, 'export', pit.export)
    if exported is not None:
        exported.eval()
        arch1 = _arch(exported)
        for name, a0 in arch0.items():
            if a0[0] == 'bn':
                continue
            base = name
            a1 = arch1.get(base)
            if a1 is None:
                res.bad('exported-layer-missing', layer=name)
                continue
            want = a0
            nid = base.split('.')[-1]
            converted = nid not in case['plain'] and not any(
                n['id'] == nid and n.get('excl') for n in spec['nodes'])
            if case['fold_bn'] and (base + '_bn') in arch0 and converted:
                want = a0[:-1] + (True,)           # folding creates a bias
            if a1 != want and not (a0[0].startswith('conv') and a1[:5] == want[:5]
                                   and a1[6:] == want[6:] and _pad_equiv(a0, a1, spec, name)):
                res.bad('exported-architecture-differs-from-original', layer=name, original=a0,
                        exported=a1)
        # a BN of the same width follows where it was not folded
        for name, a0 in arch0.items():
            if a0[0] == 'bn' and name.endswith('_bn') and not case['fold_bn']:
                host = name[:-3]
                a1 = arch1.get(host + '_exported_bn') or arch1.get(name)
                if a1 != a0 and host.split('.')[-1] not in case['plain']:
                    res.bad('exported-bn-differs-from-original', layer=name, original=a0,
                            exported=a1)
        pu.transplant_bn(pit, exported)
        with torch.no_grad():
            y2 = must(res, 'exported-forward', ng.call, exported, x)
        if y2 is not None and (y2.shape != y0.shape or
                               float((y2 - y0).abs().max()) > TOL * scale):
            res.bad('immediately-exported-output-differs-from-original',
                    max_abs=float((y2 - y0).abs().max()) if y2.shape == y0.shape else 'shape',
                    fold_bn=case['fold_bn'], **ctx)
    has_bn = any(n.get('bn') or n['op'] == 'bn' for n in spec['nodes'])
    nobias_bn = any(n.get('bn') and not n.get('bias', True) for n in spec['nodes'])
    res.nontrivial = has_bn or nobias_bn or case['train_mode']
    res.ev('mode:' + case['mode'], 'fold_bn' if case['fold_bn'] else 'fused_bn',
           'handed-over-in-train-mode' if case['train_mode'] else 'handed-over-in-eval-mode',
           *ng.spec_features(spec))
    if nobias_bn:
        res.ev('bias-free-layer-followed-by-bn')
    return res


def _pad_equiv(a0, a1, spec, name):
    """Export of a Conv1d keeps `padding` as given; nothing else may differ."""
    return a0[5] == a1[5]


def c07_import_mutates_user_layers(part, case, disc) -> bool:
    """Known finding D14: in import mode (autoconvert_layers=False) the BatchNorm following a
    user-placed PIT layer is fused INTO THE CALLER'S layer object (and, with fold_bn, folded into
    its weights), so the caller's model changes."""
    if part != 'pit' or not disc.get('import_mode'):
        return False
    if not disc.get('user_placed_layer_followed_by_bn'):
        return False
    return disc.get('kind') in ('user-model-state-dict-changed', 'user-model-output-changed')


# ----------------------------------------------------------------------------------------
# PIT: exhaustive grid of one-layer-under-test networks (every layer type x options)
# ----------------------------------------------------------------------------------------
def grid_cases(tier):
    """Every combination of {1-D, 2-D} x {conv, depthwise conv, linear} x bias x BatchNorm x
    fold_bn x handed-over mode x {layer in the middle, layer is the output}: conversion code is
    per layer type, so each type must meet each option at least once on every run."""
    for fam in ('1d', '2d'):
        shape = [4, 8] if fam == '1d' else [4, 5, 5]
        for kind in ('conv', 'dw', 'linear'):
            for bias in (False, True):
                for bn in (False, True):
                    for fold in (False, True):
                        for tm in (False, True):
                            for last in (False, True):
                                nodes = []
                                src = 'x'
                                if kind == 'linear':
                                    nodes.append({'id': 'n0', 'op': 'flatten', 'in': ['x'],
                                                  'variant': 'mod'})
                                    nodes.append({'id': 'n1', 'op': 'linear', 'in': ['n0'],
                                                  'cout': 5, 'bias': bias, 'bn': bn})
                                    src = 'n1'
                                else:
                                    g = 4 if kind == 'dw' else 1
                                    if fam == '1d':
                                        nodes.append({'id': 'n1', 'op': 'conv1d', 'in': ['x'],
                                                      'k': 3, 'dil': 1, 'stride': 1,
                                                      'pad': 'causal', 'cout': 4, 'bias': bias,
                                                      'bn': bn, 'groups': g})
                                    else:
                                        nodes.append({'id': 'n1', 'op': 'conv2d', 'in': ['x'],
                                                      'k': 3, 'p': 1, 'stride': 1, 'cout': 4,
                                                      'bias': bias, 'bn': bn, 'groups': g})
                                    src = 'n1'
                                if not last:
                                    nodes.append({'id': 'n2', 'op': 'relu', 'in': [src],
                                                  'variant': 'mod'})
                                    if kind == 'linear':
                                        nodes.append({'id': 'n3', 'op': 'linear', 'in': ['n2'],
                                                      'cout': 2, 'bias': True, 'bn': False})
                                    elif fam == '1d':
                                        nodes.append({'id': 'n3', 'op': 'conv1d', 'in': ['n2'],
                                                      'k': 1, 'dil': 1, 'stride': 1, 'pad': 'none',
                                                      'cout': 2, 'bias': True, 'bn': False,
                                                      'groups': 1})
                                    else:
                                        nodes.append({'id': 'n3', 'op': 'conv2d', 'in': ['n2'],
                                                      'k': 1, 'p': 0, 'stride': 1, 'cout': 2,
                                                      'bias': True, 'bn': False, 'groups': 1})
                                    src = 'n3'
                                spec = {'family': fam, 'inputs': [shape], 'out': src,
                                        'nodes': nodes}
                                yield {'spec': spec, 'mode': 'auto', 'plain': [], 'fold_bn': fold,
                                       'train_mode': tm, 'wseed': 3, 'xseed': 4}



# ----------------------------------------------------------------------------------------
# SuperNet
# ----------------------------------------------------------------------------------------
@st.composite
def sn_cases(draw):
    spec = draw(su.sn_specs(max_sn=2, functional_tail=True, max_branches=5))
    for n in su.sn_nodes(spec):
        n['gumbel'] = False
    return {'spec': spec, 'train_mode': draw(st.booleans()), 'wseed': draw(st.integers(0, 50)),
            'xseed': draw(st.integers(0, 50))}


def oracle_sn(case) -> Result:
    import torch
    from plinio.methods import SuperNet
    res = Result()
    spec = case['spec']
    model = ng.build(spec, case['wseed'], sn_factory=su.sn_factory)
    model.train(case['train_mode'])
    x = ng.make_input(spec, case['xseed'], batch=2)
    ref = copy.deepcopy(model).eval()
    with torch.no_grad():
        y0 = ref(x)
    before = _state(model)
    sn = must(res, 'SuperNet-constructor', SuperNet, model, input_example=ng.make_input(spec, 0))
    if sn is None:
        return res
    d = _state_diff(before, _state(model))
    if d:
        res.bad('user-model-state-dict-changed', **d)
    with torch.no_grad():
        y_user = copy.deepcopy(model).eval()(x)
    if not torch.equal(y_user, y0):
        res.bad('user-model-output-changed', max_abs=float((y_user - y0).abs().max()))
    sn.eval()
    with torch.no_grad():
        y1 = must(res, 'supernet-forward', sn, x)
    scale = 1.0 + float(y0.abs().max())
    if y1 is not None and (y1.shape != y0.shape or float((y1 - y0).abs().max()) > TOL * scale):
        res.bad('wrapped-model-output-differs-from-original',
                max_abs=float((y1 - y0).abs().max()) if y1.shape == y0.shape else 'shape')
    res.nontrivial = True
    res.ev('handed-over-in-train-mode' if case['train_mode'] else 'handed-over-in-eval-mode')
    return res


# ----------------------------------------------------------------------------------------
# MPS: only the training-mode clause
# ----------------------------------------------------------------------------------------
@st.composite
def mps_cases(draw):
    return {'spec': draw(ng.netspecs(mu.profile())), 'train_mode': draw(st.booleans()),
            'per_channel': draw(st.booleans()), 'wseed': draw(st.integers(0, 50))}


def oracle_mps(case) -> Result:
    from plinio.methods import MPS
    from plinio.methods.mps import MPSType
    res = Result()
    spec = case['spec']
    model = ng.build(spec, case['wseed'])
    model.train(case['train_mode'])
    x0 = ng.make_input(spec, 0).abs().clamp(max=1.0)
    mps = must(res, 'MPS-constructor', MPS, model, input_example=x0,
               w_search_type=MPSType.PER_CHANNEL if case['per_channel'] else MPSType.PER_LAYER)
    if mps is None:
        return res
    wrong = [n for n, t in _modes(mps) if t != case['train_mode']]
    if wrong:
        res.bad('wrapper-mode-differs-from-mode-found', found='train' if case['train_mode']
                else 'eval', modules=wrong[:5])
    res.nontrivial = case['train_mode']
    res.ev('handed-over-in-train-mode' if case['train_mode'] else 'handed-over-in-eval-mode')
    return res


CHECK = Check(
    prop='C07',
    parts=[
        Part('pit', oracle_pit, strategy=pit_cases(),
             budget={'quick': 300, 'thorough': 1500}, shards={'quick': 1, 'thorough': 16}),
        Part('pit-layer-grid', oracle_pit, enumerate=grid_cases, enum_parallel=True,
             shards={'quick': 4, 'thorough': 8},
             exhaustive_note='ALL 192 combinations of {1-D, 2-D} x {conv, depthwise, linear} x '
                             'bias x BatchNorm x fold_bn x train/eval hand-over x {hidden, output} '
                             'layer'),
        Part('supernet', oracle_sn, strategy=sn_cases(),
             budget={'quick': 120, 'thorough': 600}, shards={'quick': 1, 'thorough': 16}),
        Part('mps', oracle_mps, strategy=mps_cases(),
             budget={'quick': 100, 'thorough': 500}, shards={'quick': 1, 'thorough': 16}),
    ],
    rule=("pit: NetSpec networks (BatchNorm with non-default statistics after conv / linear and "
          "stand-alone, bias on/off, depthwise, two-input forward, excluded layers) wrapped with "
          "fold_bn on/off, autoconvert on or off (import mode with user-placed PIT layers), handed "
          "over in train or eval mode; oracle: output of a deep copy taken BEFORE conversion vs "
          "wrapped model, vs immediately exported model (BN statistics transplanted), vs the "
          "caller's object afterwards (state_dict and output bit-equal), layer types / hyper-"
          "parameters of the export vs the original, .training of every wrapper module. supernet: "
          "same for SuperNets of C03. mps: mode clause only. Non-trivial = the net has a BN or a "
          "bias-free layer followed by BN, or is handed over in train mode; distinct by case hash."),
    assumptions=[
        "tolerance max|diff| <= 1e-5*(1+max|y|) (BN folding changes rounding)",
        "import mode passes the same fold_bn to the user-placed layers and to the wrapper "
        "(implicit precondition, DESIGN 6.3)",
        "MPS conversion folds BN into the model it is given by design: nothing but the mode clause "
        "is asserted for MPS",
    ],
    classifiers={'c07_import_mutates_user_layers': c07_import_mutates_user_layers},
)
