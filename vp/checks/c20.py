"""C20 - precision refinement only promotes channels and never raises the cost."""
from __future__ import annotations

import itertools

from hypothesis import strategies as st

from .. import mpsutil as mu
from .. import netgen as ng
from ..core import Check, Part, Result, must


# ----------------------------------------------------------------------------------------
# the reassignment step
# ----------------------------------------------------------------------------------------
def score_matrix(P, C, sseed, kind='random'):
    import torch
    g = ng._gen(sseed, f"scores/{P}x{C}")
    s = torch.rand(P, C, generator=g)
    if kind == 'binary':
        a = torch.randint(0, P, (C,), generator=g)
        s = torch.zeros(P, C)
        s[a, torch.arange(C)] = 1.0
    elif kind == 'coarse':
        s = torch.round(s * 4) / 4          # ties
    return s


def compositions(C, P):
    if P == 1:
        yield (C,)
        return
    for first in range(C + 1):
        for rest in compositions(C - first, P - 1):
            yield (first,) + rest


def shipped_greedy(best, scores):
    """The harness' own transcription of the greedy algorithm shipped at the pinned commit.  Used
    ONLY by the known-finding classifier: a contract violation is excused iff the code under test
    still returns exactly what this algorithm returns on the same input."""
    import torch
    P, C = scores.shape
    cur = torch.argmax(scores, dim=0)
    order = torch.argsort(scores, dim=1, descending=True)
    new = cur.clone()
    for p in range(P):
        t = int(best[p])
        idx = (cur == p).nonzero(as_tuple=True)[0]
        if t == 0:
            new[idx] = -1
            continue
        new[order[p][:t]] = p
        exc = idx[t:]
        if len(exc) > 0:
            new[exc] = -1
    for p in range(P):
        t = int(best[p])
        c = int((new == p).sum())
        if c < t:
            un = (new == -1).nonzero(as_tuple=True)[0]
            top = order[p][torch.isin(order[p], un)][:t - c]
            new[top] = p
    out = torch.zeros_like(scores)
    for ch in range(C):
        if new[ch] != -1:
            out[new[ch], ch] = 1
    return out


def step_contract(out, targets):
    """Returns a list of contract violations of one reassignment result."""
    import torch
    bad = []
    if not bool(((out == 0) | (out == 1)).all()):
        bad.append('not-binary')
    cols = out.sum(dim=0)
    if not bool((cols == 1).all()):
        bad.append('channel-without-exactly-one-precision')
    rows = [int(v) for v in out.sum(dim=1)]
    if rows != [int(t) for t in targets]:
        bad.append('per-precision-counts-differ-from-targets')
    return bad


def oracle_step(case) -> Result:
    import torch
    from plinio.methods.mps.utils import _reassign_precisions
    res = Result()
    P, C = case['P'], case['C']
    scores = score_matrix(P, C, case['sseed'], case.get('kind', 'random'))
    targets = list(case['targets'])
    if case.get('targets_are_current'):
        cur = torch.argmax(scores, dim=0)
        targets = [int((cur == p).sum()) for p in range(P)]
    best = torch.tensor(targets, dtype=torch.float32)
    out = must(res, 'reassign', _reassign_precisions, best.clone(), scores.clone())
    if out is None:
        return res
    viol = step_contract(out, targets)
    if viol:
        res.bad('reassignment-step-contract', violations=viol, targets=targets,
                scores=scores.tolist(), got=out.tolist())
    cur = torch.argmax(scores, dim=0)
    cur_counts = [int((cur == p).sum()) for p in range(P)]
    res.nontrivial = cur_counts != targets and P >= 2
    res.ev(f"P:{P}", f"kind:{case.get('kind', 'random')}",
           'identity-targets' if cur_counts == targets else 'moving-targets')
    res.obs = {'targets': targets, 'current_counts': cur_counts}
    return res


def enum_step(tier):
    nm = 20 if tier == 'quick' else 60
    for P in (1, 2, 3):
        for C in range(1, 6):
            for targets in compositions(C, P):
                for s in range(nm):
                    yield {'P': P, 'C': C, 'targets': list(targets), 'sseed': s, 'kind': 'random'}
            for s in range(nm):
                yield {'P': P, 'C': C, 'targets': [], 'targets_are_current': True, 'sseed': s,
                       'kind': 'random'}


@st.composite
def step_cases(draw):
    P = draw(st.integers(1, 4))
    C = draw(st.integers(1, 8))
    cuts = sorted(draw(st.lists(st.integers(0, C), min_size=P - 1, max_size=P - 1)))
    targets = [b - a for a, b in zip([0] + cuts, cuts + [C])]
    return {'P': P, 'C': C, 'targets': targets, 'sseed': draw(st.integers(0, 10 ** 6)),
            'kind': draw(st.sampled_from(['random', 'random', 'binary', 'coarse'])),
            'targets_are_current': draw(st.integers(0, 5)) == 0}


def c20_greedy(part, case, disc) -> bool:
    """Known finding D10: the shipped greedy does not meet its contract on some inputs.  Excused
    only while the code returns exactly what the shipped algorithm returns."""
    import torch
    if disc.get('kind') != 'reassignment-step-contract':
        return False
    scores = torch.tensor(disc['scores'], dtype=torch.float32)
    best = torch.tensor(disc['targets'], dtype=torch.float32)
    want = shipped_greedy(best, scores)
    return torch.equal(want, torch.tensor(disc['got'], dtype=torch.float32))


# ----------------------------------------------------------------------------------------
# the whole refinement
# ----------------------------------------------------------------------------------------
@st.composite
def refine_cases(draw):
    prof = mu.profile()
    prof.two_d_k = (1, 3)
    prof.add = draw(st.integers(0, 3)) == 0
    prof.dw = draw(st.integers(0, 3)) == 0
    prof.max_c = 8
    spec = mu.fix_tail(draw(ng.netspecs(prof)))
    shapes = ng.infer_shapes(spec)
    for n in spec['nodes']:
        one_to_one = n['op'] == 'conv2d' and n['cout'] == 1 and shapes[n['in'][0]][0] == 1
        if (ng.is_dw(n) or one_to_one) and n['k'] == 1:
            n['k'], n['p'] = 3, 1
    w_prec = draw(st.permutations([2, 4, 8]))[:draw(st.integers(2, 3))]
    if draw(st.integers(0, 3)) == 0:
        w_prec = list(w_prec)
        w_prec.insert(draw(st.integers(0, len(w_prec))), 0)      # 0 listed anywhere
    return {'spec': spec, 'w_prec': list(w_prec), 'wseed': draw(st.integers(0, 30)),
            'aseed': draw(st.integers(0, 500)),
            # the refinement runs at the end of a search: annealed temperature, grown coefficients
            'temperature': draw(st.sampled_from([1.0, 1.0, 0.3, 0.05]))}


_EDGE = [0, 1, 2, 30, 31, 32, 33, 34, 62, 63, 64, 65, 66, 96]


@st.composite
def wide_cases(draw):
    """Sequential networks whose layers are wider than one 32-channel NE16 tile, with the
    per-precision channel counts of every layer drawn directly (biased to tile boundaries): here
    chains of promotions across three precisions and partial moves (tile filling) pay off."""
    cut = st.one_of(st.integers(0, 96), st.sampled_from(_EDGE))
    widths = [draw(st.sampled_from([33, 40, 48, 63, 64, 65, 80, 96])) for _ in
              range(draw(st.integers(1, 2)))]
    nodes = []
    src = 'x'
    for i, c in enumerate(widths):
        k = draw(st.sampled_from([1, 3]))
        nodes.append({'id': f'n{2 * i}', 'op': 'conv2d', 'in': [src], 'k': k, 'p': k // 2,
                      'stride': 1, 'cout': c, 'bias': draw(st.booleans()), 'bn': False,
                      'groups': 1})
        nodes.append({'id': f'n{2 * i + 1}', 'op': 'relu', 'in': [f'n{2 * i}'], 'variant': 'mod'})
        src = f'n{2 * i + 1}'
    j = 2 * len(widths)
    nodes.append({'id': f'n{j}', 'op': 'gap', 'in': [src]})
    nodes.append({'id': f'n{j + 1}', 'op': 'flatten', 'in': [f'n{j}'], 'variant': 'mod'})
    nodes.append({'id': f'n{j + 2}', 'op': 'linear', 'in': [f'n{j + 1}'],
                  'cout': draw(st.sampled_from([4, 16, 40])), 'bias': True, 'bn': False})
    spec = {'family': '2d', 'inputs': [[draw(st.sampled_from([3, 16, 40])), 4, 4]],
            'out': f'n{j + 2}', 'nodes': nodes}
    w_prec = list(draw(st.permutations([2, 4, 8])))
    if draw(st.integers(0, 4)) == 0:
        w_prec = w_prec[:2]
    if draw(st.integers(0, 1)) == 0:
        w_prec.insert(draw(st.integers(0, len(w_prec))), 0)          # 0 listed anywhere
    return {'spec': spec, 'w_prec': w_prec, 'wseed': draw(st.integers(0, 5)),
            'aseed': draw(st.integers(0, 500)),
            'temperature': draw(st.sampled_from([1.0, 1.0, 0.3, 0.05])),
            'cuts': [[draw(cut) for _ in range(3)] for _ in range(len(widths) + 1)]}


def set_counts(mps, cuts, aseed):
    """Gives the k-th per-channel weight selector the per-precision channel counts described by
    cuts[k] (sorted, clamped to the channel count); scores are distinct, arg-max as assigned."""
    import torch
    k = 0
    seen = set()
    with torch.no_grad():
        for lname, node, layer in mps._leaf_modules:
            q = getattr(layer, 'w_mps_quantizer', None)
            if q is None or q.alpha.dim() != 2 or id(q) in seen:
                continue
            seen.add(id(q))
            P, C = q.alpha.shape
            cs = sorted(min(c, C) for c in cuts[k % len(cuts)][:P - 1])
            counts = [b - a for a, b in zip([0] + cs, cs + [C])]
            g = ng._gen(aseed, f"wide/{lname}")
            a = torch.rand(P, C, generator=g) * 0.5
            assign = torch.repeat_interleave(torch.arange(P), torch.tensor(counts))
            assign = assign[torch.randperm(C, generator=g)]
            a[assign, torch.arange(C)] += 1.0
            a = a * (1, 1, 4, 30)[aseed % 4]
            if (aseed // 4) % 3 == 2:
                a = a - (a.max() + 0.25)          # every coefficient negative
            q.alpha.copy_(a)
            k += 1


def oracle_refine(case) -> Result:
    import io
    import contextlib
    import torch
    import plinio.methods.mps.utils as U
    from plinio.cost import ne16_latency
    res = Result()
    spec = case['spec']
    mps, x0 = mu.build_mps(spec, case['wseed'], case['w_prec'], [8], per_channel=True,
                           cost={'ne16': ne16_latency},
                           temperature=float(case.get('temperature', 1.0)))
    mu.set_coefficients(mps, case['aseed'])
    if case.get('cuts'):
        set_counts(mps, case['cuts'], case['aseed'])
    mps.eval()
    mps.update_softmax_options(hard=True)
    if (case['aseed'] // 3) % 2:
        # the refinement is called straight after the coefficients were written, without a
        # forward pass of ours in between (the sampled coefficients of the model are stale: the
        # function has to bring them up to date itself); the cost before is measured on a copy
        from ..core import safe_deepcopy
        twin = safe_deepcopy(mps)
        with torch.no_grad():
            twin(x0)
        cost_before = float(twin.get_cost('ne16'))
        res.ev('refinement-called-without-a-forward-pass-first')
    else:
        with torch.no_grad():
            mps(x0)
        cost_before = float(mps.get_cost('ne16'))
    before = {k: v for k, v in mps.summary().items() if 'w_precision' in v}
    calls = []
    orig = U._reassign_precisions
    orig_counts = {}
    for lname, node, layer in mps._leaf_modules:
        q = getattr(layer, 'w_mps_quantizer', None)
        if q is not None and q.alpha.dim() == 2:
            a0 = torch.argmax(q.alpha.detach(), dim=0)
            orig_counts[id(q)] = [int((a0 == p).sum()) for p in range(q.alpha.shape[0])]

    def spy(best, scores):
        rec = {'best': [int(b) for b in best], 'scores': scores.detach().clone()}
        # count-level view of what the search chose for this layer (identified by its alpha)
        # the k-th call belongs to the k-th layer with a per-channel selector, in cost order
        elig = [(ln, nd, ly) for ln, nd, ly in mps._leaf_modules
                if getattr(ly, 'w_mps_quantizer', None) is not None
                and ly.w_mps_quantizer.alpha.dim() == 2]
        for lname, node, layer in elig[len(calls):len(calls) + 1]:
            q = layer.w_mps_quantizer
            if q.alpha is scores:
                C = scores.shape[1]
                # the state every layer decides from is the one BEFORE the refinement (a selector
                # shared by several layers is deliberately not re-sampled in between)
                curc = orig_counts[id(q)]
                rec['layer'] = lname
                rec['qid'] = id(q)
                fmap = mps._cost_fn_map['ne16']
                with torch.no_grad():
                    rec['cur_counts'] = curc
                    rec['precisions'] = [int(p) for p in q.precision]
                    rec['cost_cur'] = float(U._compute_cost(
                        mps, layer, torch.tensor(curc, dtype=torch.float32) / C, fmap, lname, node))
                    rec['cost_best'] = float(U._compute_cost(
                        mps, layer, torch.tensor(rec['best'], dtype=torch.float32) / C, fmap,
                        lname, node))
                break
        out = orig(best, scores)
        rec['out'] = out.detach().clone()
        calls.append(rec)
        return out
    U._reassign_precisions = spy
    try:
        with contextlib.redirect_stdout(io.StringIO()):
            r = must(res, 'optimize_prec_assignment', U.optimize_prec_assignment, mps, 'ne16')
    finally:
        U._reassign_precisions = orig
    if r is None:
        return res
    with torch.no_grad():
        mps(x0)
    after = {k: v for k, v in mps.summary().items() if 'w_precision' in v}
    cost_after = float(mps.get_cost('ne16'))
    step_failed = [c for c in calls if step_contract(c['out'], c['best'])]
    greedy_all = all(torch.equal(shipped_greedy(torch.tensor(c['best'], dtype=torch.float32),
                                                c['scores']), c['out']) for c in calls)
    ctx = {'step_contract_failed_in_this_run': bool(step_failed),
           'all_steps_match_shipped_greedy': bool(calls) and greedy_all}
    # what the SEARCH chose, at the level of per-precision counts: never excused
    for c in calls:
        if 'cur_counts' not in c:
            continue
        order = sorted(range(len(c['precisions'])), key=lambda i: c['precisions'][i])
        cum_b = cum_c = 0
        for i in reversed(order):
            cum_b += c['best'][i]
            cum_c += c['cur_counts'][i]
            if cum_b < cum_c:
                res.bad('search-chose-a-demotion', precisions=c['precisions'],
                        current=c['cur_counts'], chosen=c['best'])
                break
        if min(c['best']) < 0:
            res.bad('chosen-count-negative', precisions=c['precisions'], chosen=c['best'])
        if 0 in c['precisions']:
            z = c['precisions'].index(0)
            if c['best'][z] != c['cur_counts'][z]:
                res.bad('search-changed-the-number-of-pruned-channels', precisions=c['precisions'],
                        current=c['cur_counts'], chosen=c['best'])
        if sum(c['best']) != sum(c['cur_counts']):
            res.bad('chosen-counts-do-not-sum-to-the-channel-count', precisions=c['precisions'],
                    current=c['cur_counts'], chosen=c['best'])
        if c['cost_best'] > c['cost_cur'] * (1 + 1e-6) + 1e-6:
            res.bad('search-chose-a-costlier-configuration', precisions=c['precisions'],
                    current=c['cur_counts'], chosen=c['best'], cost_current=c['cost_cur'],
                    cost_chosen=c['cost_best'])
    # per layer: which quantizer object, to recognise layers sharing one selector
    owners = {}
    for name in before:
        owners.setdefault(id(mps.seed.get_submodule(name).w_mps_quantizer), []).append(name)
    shared = any(len(v) > 1 for v in owners.values())
    promoted = 0
    for name in before:
        b, a = before[name]['w_precision'], after[name]['w_precision']
        if isinstance(b, int):
            continue
        low = [i for i, (x, y) in enumerate(zip(b, a)) if y < x]
        promoted += sum(1 for x, y in zip(b, a) if y > x)
        if low:
            res.bad('channel-demoted', layer=name, channels=low[:6], before=b, after=a, **ctx)
    # per-precision counts of every layer == what the refinement chose FOR THAT LAYER
    layer_names = [n for n in before if not isinstance(before[n]['w_precision'], int)]
    by_layer = {c['layer']: c for c in calls if 'layer' in c}
    last_for_q = {}
    for c in calls:
        if 'qid' in c:
            last_for_q[c['qid']] = c
    if len(by_layer) != len(layer_names):
        res.bad('unexpected-number-of-reassignment-calls', calls=len(calls),
                layers=len(layer_names))
    for name in layer_names:
        if name not in by_layer:
            continue
        m = mps.seed.get_submodule(name)
        c = by_layer[name]
        precs = [int(p) for p in m.w_mps_quantizer.precision]
        got = [sum(1 for v in after[name]['w_precision'] if v == p) for p in precs]
        if got != c['best']:
            last = last_for_q[c['qid']]
            res.bad('layer-counts-differ-from-refinement-choice', layer=name, got=got,
                    chosen=c['best'], precisions=precs,
                    shared_selector=len(owners[c['qid']]) > 1,
                    is_last_user_of_selector=last is c,
                    final_equals_last_choice_for_selector=(got == last['best']), **ctx)
    if cost_after > cost_before * (1 + 1e-6) + 1e-6:
        res.bad('refinement-raised-the-cost', before=cost_before, after=cost_after, shared=shared,
                **ctx)
    res.nontrivial = promoted > 0
    if case.get('cuts'):
        res.ev('wide-layers')
        for c in calls:
            if 'cur_counts' in c and sum(1 for a, b in zip(c['cur_counts'], c['best']) if a != b) >= 3:
                res.ev('three-precisions-changed-in-one-layer')
    res.ev('promoted' if promoted else 'nothing-promoted', 'shared-selector' if shared else
           'no-sharing', 'zero-bit' if 0 in case['w_prec'] else 'no-zero-bit',
           'sorted-precisions' if case['w_prec'] == sorted(case['w_prec']) else
           'unsorted-precisions')
    res.obs = {'cost_before': cost_before, 'cost_after': cost_after, 'promoted_channels': promoted,
               'reassign_calls': len(calls)}
    return res


def c20_shared_selector(part, case, disc) -> bool:
    """Known finding D26: layers sharing one weight selector (residual add partners, depthwise
    chains) each choose counts from the pre-refinement state and overwrite the shared
    coefficients: only the last layer's choice survives."""
    if disc.get('kind') == 'refinement-raised-the-cost':
        return bool(disc.get('shared') and disc.get('all_steps_match_shipped_greedy'))
    if disc.get('kind') != 'layer-counts-differ-from-refinement-choice':
        return False
    return bool(disc.get('shared_selector') and not disc.get('is_last_user_of_selector')
                and disc.get('final_equals_last_choice_for_selector'))


def c20_greedy_consequence(part, case, disc) -> bool:
    """Whole-function consequences of D10: the greedy step places channels by score instead of
    keeping the current members of a precision, so even when the per-precision counts chosen by
    the search are fine (checked separately and never excused) individual channels can be demoted
    or swapped with pruned ones and the cost can rise.  Excused only while EVERY recorded
    reassignment step returns exactly the shipped greedy's output."""
    kind = disc.get('kind')
    if not disc.get('all_steps_match_shipped_greedy'):
        return False
    if kind == 'channel-demoted':
        return True           # channel-level misplacement (counts may well be right)
    if kind in ('layer-counts-differ-from-refinement-choice', 'refinement-raised-the-cost'):
        # the cost depends on per-precision counts only: it can rise / counts can differ only when
        # a step missed its target counts
        return bool(disc.get('step_contract_failed_in_this_run'))
    return False


CHECK = Check(
    prop='C20',
    parts=[
        Part('step-exhaustive', oracle_step, enumerate=enum_step,
             exhaustive_note='P<=3 precisions x C<=5 channels: ALL compositions of C as targets x '
                             '20 (thorough 60) seeded score matrices, plus targets = current counts'),
        Part('step', oracle_step, strategy=step_cases(),
             budget={'quick': 1500, 'thorough': 10000}, shards={'quick': 1, 'thorough': 16}),
        Part('refine', oracle_refine, strategy=refine_cases(),
             budget={'quick': 120, 'thorough': 500}, shards={'quick': 1, 'thorough': 16}),
        Part('refine-wide', oracle_refine, strategy=wide_cases(),
             budget={'quick': 160, 'thorough': 800}, shards={'quick': 8, 'thorough': 16}),
    ],
    rule=("step: _reassign_precisions(best, scores) called directly with score matrices up to 4 x 8 "
          "(uniform random, with ties, or binary as after a previous reassignment) and targets = "
          "any composition of the channel count (or the current counts); contract = binary matrix, "
          "exactly one precision per channel, row sums equal the targets. refine: "
          "optimize_prec_assignment on per-channel MPS models (NetSpec grammar restricted to "
          "1x1/3x3 kernels, 8-bit activations, weight precisions = ordered subset of {2,4,8} with "
          "optional 0) under {'ne16': ne16_latency}; the harness wraps _reassign_precisions to "
          "record the chosen counts. refine-wide: the same oracle on sequential networks whose layers "
          "have 33..96 output channels (more than one 32-channel NE16 tile) and per-precision "
          "channel counts drawn directly, biased to tile boundaries. Non-trivial = targets differ from current counts (step) / at "
          "least one channel promoted (refine); distinct by case hash."),
    assumptions=[
        "the classifier of the open finding re-runs the harness' transcription of the shipped "
        "greedy algorithm: a contract violation is excused only while the code under test returns "
        "exactly that algorithm's output on the same input",
        "cost comparison tolerance 1e-6 relative",
    ],
    classifiers={'c20_greedy': c20_greedy, 'c20_shared_selector': c20_shared_selector,
                 'c20_greedy_consequence': c20_greedy_consequence},
)
