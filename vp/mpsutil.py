"""Helpers for driving MPS models from NetSpec cases (imports plinio lazily)."""
from __future__ import annotations

import copy
from typing import Dict, List, Optional

from hypothesis import strategies as st

from . import netgen as ng


def profile(big=False, cat=False, exclude=False, family='2d'):
    if family == '1d':
        # MPSConv1d: no Conv1d-BN fusion in the library ("TODO: add Conv1d"), so no BN here;
        # padding through the layer's own `padding` argument
        return ng.Profile(family='1d', pads=('same', 'same', 'none'), standalone_bn=False, bn=False,
                          exclude=exclude, reuse=False, multi_input=False, cat=cat, cat_t=False,
                          max_blocks=6 if big else 4, min_blocks=1, max_c=6, kmax=5, dil=(1, 2),
                          fixtures=True)
    return ng.Profile(family='2d', standalone_bn=False, exclude=exclude, reuse=False,
                      multi_input=False, cat=cat, cat_t=False, max_blocks=6 if big else 4,
                      min_blocks=1, max_c=6, fixtures=True, dil2d=(1,))


precisions = st.lists(st.sampled_from([2, 4, 8]), min_size=1, max_size=3, unique=True)


def build_mps(spec, wseed: int, w_prec, a_prec, per_channel=False, x=None, wrap_train=False,
              **kw):
    """Returns (mps, x0).  The wrapper is built from a deep copy (conversion folds BN in place into
    the model it is given)."""
    import torch
    from plinio.methods import MPS
    from plinio.methods.mps import MPSType, get_default_qinfo
    net = ng.build(spec, wseed)
    if x is None:
        x = ng.make_input(spec, 0).abs().clamp(max=1.0)
    qinfo = get_default_qinfo(tuple(w_prec), tuple(a_prec))
    if wrap_train:
        net.train()        # a freshly built nn.Module is in training mode when it is wrapped
    mps = MPS(copy.deepcopy(net), input_example=x, qinfo=qinfo,
              w_search_type=MPSType.PER_CHANNEL if per_channel else MPSType.PER_LAYER, **kw)
    return mps, x


def quantizers(mps) -> Dict[str, object]:
    """All MPS selectors with a real choice, keyed by '<module name>.<role>' (shared objects
    appear under every name that reaches them)."""
    from plinio.methods.mps.nn.qtz import MPSBaseQtz
    out = {}
    for name, m in mps.seed.named_modules():
        for role in ('out_mps_quantizer', 'w_mps_quantizer'):
            q = getattr(m, role, None)
            if isinstance(q, MPSBaseQtz):
                out[f"{name}.{role}"] = q
    return out


def scores(n: int, cols: Optional[int], aseed: int, name: str):
    """Random coefficient vector/matrix whose entries along dim 0 have pairwise gaps >= 0.05 and a
    random order (hence a random arg-max)."""
    import torch
    g = ng._gen(aseed, name)
    shape = (n,) if cols is None else (n, cols)
    gaps = 0.05 + torch.rand(shape, generator=g) * 0.6
    # magnitude: mostly O(1) as after initialisation, sometimes what a long search leaves behind
    # (logits / temperature in the hundreds or thousands: saturated soft-max)
    levels = (torch.cumsum(gaps, dim=0) - 0.5) * (1, 1, 1, 4, 30)[(aseed // 2) % 5]
    if (aseed // 10) % 4 == 3:
        # sign: sometimes every coefficient is negative (only differences matter to a softmax)
        levels = levels - (levels.max() + 0.25)
    if cols is None:
        perm = torch.randperm(n, generator=g)
        return levels[perm]
    out = torch.empty(shape)
    for c in range(cols):
        perm = torch.randperm(n, generator=g)
        out[:, c] = levels[perm, c]
    return out


def set_coefficients(mps, aseed: int):
    """Randomises every selection coefficient (only parameters named alpha; the PACT clip values,
    which also are nas parameters, are left alone)."""
    import torch
    seen = set()
    with torch.no_grad():
        for name, q in sorted(quantizers(mps).items()):
            if id(q) in seen:
                continue
            seen.add(id(q))
            a = q.alpha
            v = scores(a.shape[0], None if a.dim() == 1 else a.shape[1], aseed, name)
            if aseed % 2:
                a.data.copy_(v)     # the library's own idiom: does not bump the version counter
            else:
                a.copy_(v)


def earlier_assignment(mps, x, aseed: int):
    """The state a search leaves behind: ANOTHER coefficient assignment was in force, sampled by an
    eval-mode forward, and its costs were read - before the assignment the case is about is
    written.  Nothing of it may survive (caches keyed on the parameter object, stale samples)."""
    import torch
    was = mps.training
    set_coefficients(mps, aseed + 7919)          # other values, written the other way
    if was:
        mps.eval()          # (no mode call at all on a model that already is in eval mode)
    with torch.no_grad():
        try:
            mps(x)
            for n in list(mps.cost_specification.keys()) \
                    if isinstance(mps.cost_specification, dict) else [None]:
                mps.get_cost(n) if n is not None else mps.cost
            if aseed % 3 == 0:
                mps.export()                     # ... and that assignment was exported
        except Exception:  # noqa - whatever fails here fails again, visibly, in the case proper
            pass
    if was:
        mps.train(True)


def mps_input(spec, xseed: int, clip: float = 1.0, batch: int = 2):
    """Inputs uniform in [-0.2*clip, 1.3*clip] so both clamps of the input quantizer are hit."""
    import torch
    g = ng._gen(xseed, 'mps-input')
    return (torch.rand((batch,) + tuple(spec['inputs'][0]), generator=g) * 1.5 - 0.2) * clip


def float_input_layers(spec):
    """Layers fed by a tensor that MPS leaves un-quantized: the tensors of the output-connected
    sharing component get no activation quantizer.  The component is computed the way the library
    documents it: features-defining layers cut it, features-propagating ones (including depthwise
    convolutions and 1->1 convolutions, which satisfy the depthwise test) do not."""
    shapes = ng.infer_shapes(spec)
    uf = ng.UF()
    uf.find('x')
    for n in spec['nodes']:
        uf.find(n['id'])
        cin = shapes[n['in'][0]][0]
        defining = n['op'] == 'linear' or (n['op'] in ng.CONV_OPS and not ng.is_dw(n) and
                                           not (cin == 1 and n['cout'] == 1))
        if not defining:
            for i in n['in']:
                uf.union(n['id'], i)
    gout = uf.find(spec['out'])
    return [n['id'] for n in spec['nodes'] if n['op'] in ng.LAYER_OPS and
            uf.find(n['in'][0]) == gout]


def fix_tail(spec):
    """Appends a features-defining layer when some layer would consume an un-quantized tensor
    (a depthwise / 1->1 layer in the output-connected tail): there 'input bits' do not exist."""
    if not float_input_layers(spec):
        return spec
    shapes = ng.infer_shapes(spec)
    out = spec['out']
    nid = f"n{len(spec['nodes'])}"
    if len(shapes[out]) == 3:
        node = {'id': nid, 'op': 'conv2d', 'in': [out], 'k': 1, 'p': 0, 'stride': 1, 'cout': 2,
                'bias': True, 'bn': False, 'groups': 1}
    elif len(shapes[out]) == 2:
        node = {'id': nid, 'op': 'conv1d', 'in': [out], 'k': 1, 'dil': 1, 'stride': 1, 'pad': 'none',
                'cout': 2, 'bias': True, 'bn': False, 'groups': 1}
    else:
        node = {'id': nid, 'op': 'linear', 'in': [out], 'cout': 2, 'bias': True, 'bn': False}
    spec = dict(spec, nodes=spec['nodes'] + [node], out=nid)
    return spec
