"""C03 - SuperNet export keeps exactly the arg-max branch of every choice block."""
from __future__ import annotations

import itertools

from hypothesis import strategies as st

from .. import netgen as ng
from .. import snutil as su
from ..core import Check, Part, Result, must

TOL = 1e-5


@st.composite
def cases(draw, big=False):
    spec = draw(su.sn_specs(max_sn=3, functional_tail=True))
    return {'spec': spec, 'wseed': draw(st.integers(0, 50)), 'xseed': draw(st.integers(0, 50)),
            'aseed': draw(st.integers(0, 200)), 'winners': draw(su.winners_for(spec)),
            'temperature': draw(st.sampled_from([0.05, 0.5, 1.0, 5.0, 20.0]))}


def winner_sets(case):
    blocks = su.sn_nodes(case['spec'])
    sizes = [len(b['branches']) for b in blocks]
    total = 1
    for s in sizes:
        total *= s
    if total <= 64:
        combos = list(itertools.product(*[range(s) for s in sizes]))
        exhaustive = True
    else:
        drawn = tuple(case['winners'][b['id']] for b in blocks)
        combos = {drawn}
        # plus: every branch of every block wins at least once (others at the drawn winner)
        for bi, s in enumerate(sizes):
            for w in range(s):
                c = list(drawn)
                c[bi] = w
                combos.add(tuple(c))
        combos = sorted(combos)
        exhaustive = False
    return [{b['id']: c[i] for i, b in enumerate(blocks)} for c in combos], exhaustive


def oracle(case) -> Result:
    import torch
    from plinio.methods.supernet.nn.combiner import SuperNetCombiner
    res = Result()
    spec = case['spec']
    net, sn, x0 = su.build_sn(spec, case['wseed'])
    orig_state = {k: v.clone() for k, v in net.state_dict().items()}
    x = ng.make_input(spec, case['xseed'], batch=2)
    sn.update_softmax_options(temperature=case['temperature'], hard=True)
    sn.eval()
    combos, exhaustive = winner_sets(case)
    blocks = su.sn_nodes(spec)
    used_twice = {n['of'] for n in spec['nodes'] if n['op'] == 'reuse'}
    nontrivial = False
    for winners in combos:
        su.set_winner_coefficients(sn, spec, winners, case['aseed'])
        # export must follow the CURRENT coefficients whether or not a forward pass with them
        # happened: alternate the order (the previous combination's hard sample is then stale)
        export_first = (len(winners) + sum(winners.values()) + case['aseed']) % 2 == 0
        # ... and it is asked for in the middle of a search epoch (model in training mode) in
        # half of the cases: the export must not run anything in training mode (BatchNorm statistics
        # of the layers it shares with the SuperNet would move)
        in_train = (case['aseed'] // 2) % 2 == 1

        def do_export():
            if in_train:
                sn.train()
            try:
                return sn.export()
            finally:
                sn.eval()
        exported = must(res, 'export', do_export) if export_first else None
        with torch.no_grad():
            y_sn = must(res, 'supernet-forward', sn, x)
        if not export_first:
            exported = must(res, 'export', do_export)
        if y_sn is None or exported is None:
            return res
        exported.eval()
        with torch.no_grad():
            y_exp = must(res, 'exported-forward', exported, x)
        if y_exp is None:
            return res
        ref = ng.build(spec, case['wseed'], sn_factory=su.winner_factory(winners))
        with torch.no_grad():
            y_ref = ref(x)
        scale = 1.0 + float(y_ref.abs().max())
        if y_exp.shape != y_ref.shape or float((y_exp - y_ref).abs().max()) > TOL * scale:
            res.bad('exported-output-differs-from-winning-branches-network', winners=winners,
                    max_abs=float((y_exp - y_ref).abs().max()) if y_exp.shape == y_ref.shape
                    else 'shape')
        if y_sn.shape != y_exp.shape or float((y_sn - y_exp).abs().max()) > TOL * scale:
            res.bad('exported-output-differs-from-hard-supernet', winners=winners,
                    max_abs=float((y_sn - y_exp).abs().max()) if y_sn.shape == y_exp.shape
                    else 'shape')
        # module tree: no combiner, only the winning branch of each block survives
        names = [k for k, m in exported.named_modules()]
        if any(isinstance(m, SuperNetCombiner) for m in exported.modules()):
            res.bad('combiner-left-in-exported-network', winners=winners)
        for b in blocks:
            w = winners[b['id']]
            pre = f"layers.{b['id']}.sn_branches."
            kept = sorted({k[len(pre):].split('.')[0] for k in names if k.startswith(pre)})
            has_params = any(True for _ in ref.layers[b['id']].parameters())
            want = [str(w)] if (has_params or b['branches'][w]['kind'] != 'identity') else kept
            if b['branches'][w]['kind'] == 'identity':
                want = [k for k in kept if k == str(w)]   # an Identity may be kept or folded away
            if kept != want:
                res.bad('exported-block-branches', block=b['id'], winner=w, kept=kept)
        # parameters: exactly those of the fixed layers and the winning branches, bit-equal
        exp_state = exported.state_dict()
        ref_numel = sum(p.numel() for p in ref.parameters())
        exp_numel = sum(p.numel() for p in exported.parameters())
        if ref_numel != exp_numel:
            res.bad('exported-parameter-count', exported=exp_numel, reference=ref_numel,
                    winners=winners)
        for k, v in exp_state.items():
            if k in orig_state and not torch.equal(v, orig_state[k]):
                res.bad('exported-parameter-changed', name=k)
                break
            if k not in orig_state:
                res.bad('exported-parameter-unknown', name=k)
                break
        if res.discrepancies:
            return res
        if any(w != 0 for w in winners.values()):
            nontrivial = True
    # 'every value of the coefficients' includes ties (the construction-time uniform vector is one):
    # export and the hard SuperNet must then still pick the SAME maximal branch
    for mode in ('uniform', 'partial'):
        with torch.no_grad():
            for nid, comb in su.combiners(sn).items():
                n = comb.n_branches
                if mode == 'uniform':
                    comb.alpha.fill_(1.0 / n)
                else:
                    g = ng._gen(case['aseed'], 'ties/' + nid)
                    v = torch.rand(n, generator=g) * 0.5
                    tied = torch.randperm(n, generator=g)[:max(2, n // 2)]
                    v[tied] = 0.75
                    comb.alpha.copy_(v)
        exported = must(res, 'export', sn.export)
        with torch.no_grad():
            y_sn = must(res, 'supernet-forward', sn, x)
        if exported is None or y_sn is None:
            return res
        exported.eval()
        with torch.no_grad():
            y_exp = must(res, 'exported-forward', exported, x)
        if y_exp is None:
            return res
        scale = 1.0 + float(y_sn.abs().max())
        if y_exp.shape != y_sn.shape or float((y_exp - y_sn).abs().max()) > TOL * scale:
            res.bad('exported-output-differs-from-hard-supernet', tie=mode,
                    max_abs=float((y_exp - y_sn).abs().max()) if y_exp.shape == y_sn.shape
                    else 'shape')
        names = [k for k, m in exported.named_modules()]
        for b in blocks:
            comb = su.combiners(sn)[b['id']]
            top = float(comb.alpha.max())
            maximal = {str(i) for i in range(comb.n_branches) if float(comb.alpha[i]) == top}
            pre = f"layers.{b['id']}.sn_branches."
            kept = {k[len(pre):].split('.')[0] for k in names if k.startswith(pre)}
            if len(kept) > 1 or not kept <= maximal:
                res.bad('exported-block-branches', tie=mode, block=b['id'], kept=sorted(kept),
                        maximal=sorted(maximal))
        if res.discrepancies:
            return res
    res.nontrivial = nontrivial
    res.ev('tied-coefficients')
    res.ev(*ng.spec_features(spec))
    res.ev('export-before-and-after-forward', 'winners:exhaustive' if exhaustive else 'winners:sampled',
           f"blocks:{len(blocks)}")
    if any(len(b['branches']) >= 11 for b in blocks):
        res.ev('block-with-12-branches')
    if any(br['kind'] == 'identity' for b in blocks for br in b['branches']):
        res.ev('has-identity-branch')
    if any(br['kind'] == 'block' and br['tail'] == 'func' for b in blocks for br in b['branches']):
        res.ev('has-functional-tail-branch')
    if any(br['kind'] == 'block' and br['tail'] == 'none' for b in blocks for br in b['branches']):
        res.ev('has-user-block-branch')
    if used_twice:
        res.ev('block-used-twice')
    res.obs = {'winner_combinations_checked': len(combos), 'exhaustive_for_this_net': exhaustive}
    return res


CHECK = Check(
    prop='C03',
    parts=[
        Part('nets', oracle, strategy=cases(),
             budget={'quick': 150, 'thorough': 300}, shards={'quick': 1, 'thorough': 16}),
    ],
    rule=("Generated 1-D/2-D networks with 1..3 choice blocks of 2..12 branches (single conv "
          "k in {1,3,5}, nn.Sequential, user-defined two-layer block with module / functional / no "
          "tail, depthwise-separable pair, Identity), blocks used plainly, inside a residual, "
          "followed by an activation or applied twice; for each network EVERY combination of "
          "winning branches when there are <= 64, otherwise the drawn combination plus every "
          "single-block variation. Oracle: exported network vs (a) the SuperNet in eval mode with "
          "hard selection and (b) a reference network built from the same specification keeping "
          "only the winning branch (same weights), plus module tree and bit-equal parameters; then "
          "two tied coefficient vectors (uniform, partial tie at the maximum): export vs hard "
          "SuperNet, one kept branch, among the maximal ones. "
          "Non-trivial = some winner is not branch 0; distinct by case hash."),
    assumptions=[
        "tolerance max|diff| <= 1e-5*(1+max|y|) between SuperNet (weighted sum with a one-hot) and "
        "the exported network",
        "all branches of a block share the output shape (README limitation)",
    ],
)
