"""Shared machinery: seeds, case evaluation, Hypothesis driving, sharding, evidence,
known findings, VIOLATION / KNOWN-FINDING printing and exit codes.

Vocabulary
----------
case         JSON-serialisable dict fully describing one generated input / history.
oracle       function(case) -> Result; never raises for a property violation, it *returns*
             discrepancy records.  An exception escaping an oracle is a violation only when
             the traceback passes through plinio code (see classify_exception), otherwise it
             is a harness error (exit 2).
Part         one sub-check of a property: an oracle plus a Hypothesis strategy and/or an
             exhaustive enumerator, with per-tier budgets.
"""
from __future__ import annotations

import hashlib
import json
import os
import sys
import time
import traceback
from dataclasses import dataclass, field
from typing import Any, Callable, Dict, Iterable, List, Optional

ROOT = os.path.dirname(os.path.dirname(os.path.abspath(__file__)))
REPO = os.path.abspath(os.environ.get('VERIF_REPO', '/repo'))

EXIT_OK, EXIT_VIOLATION, EXIT_HARNESS = 0, 1, 2


class HarnessError(Exception):
    pass


# --------------------------------------------------------------------------------------
# environment
# --------------------------------------------------------------------------------------
_env_ready = False


def setup_env():
    """Make sure the code under test is the working tree of REPO and torch is deterministic."""
    global _env_ready
    if _env_ready:
        return
    if REPO not in sys.path[:1]:
        sys.path.insert(0, REPO)
    os.environ.setdefault('PYTHONDONTWRITEBYTECODE', '1')
    sys.dont_write_bytecode = True
    import warnings
    warnings.filterwarnings('ignore')
    import torch
    torch.set_num_threads(1)
    try:
        torch.set_num_interop_threads(1)
    except RuntimeError:
        pass
    torch.use_deterministic_algorithms(True, warn_only=True)
    import plinio
    pf = os.path.abspath(plinio.__file__)
    if not pf.startswith(REPO + os.sep):
        raise HarnessError(f"plinio imported from {pf}, expected under {REPO}")
    _env_ready = True


def env_seed() -> int:
    try:
        return int(os.environ.get('VERIF_SEED', '1'))
    except ValueError:
        return 1


# --------------------------------------------------------------------------------------
# results
# --------------------------------------------------------------------------------------
@dataclass
class Result:
    discrepancies: List[Dict[str, Any]] = field(default_factory=list)
    nontrivial: bool = False
    events: List[str] = field(default_factory=list)
    obs: Dict[str, Any] = field(default_factory=dict)
    discarded: Optional[str] = None   # reason when the case is outside the property's domain

    def bad(self, kind: str, **detail):
        self.discrepancies.append({'kind': kind, **{k: _jsonable(v) for k, v in detail.items()}})

    def ev(self, *labels: str):
        self.events.extend(labels)


def _jsonable(v):
    try:
        import torch
        if isinstance(v, torch.Tensor):
            v = v.detach().cpu().tolist()
    except Exception:
        pass
    if isinstance(v, float):
        if v != v or v in (float('inf'), float('-inf')):
            return repr(v)
        return v
    if isinstance(v, (int, str, bool)) or v is None:
        return v
    if isinstance(v, (list, tuple)):
        return [_jsonable(x) for x in v]
    if isinstance(v, dict):
        return {str(k): _jsonable(x) for k, x in v.items()}
    return repr(v)


def case_hash(case) -> str:
    return hashlib.sha1(json.dumps(case, sort_keys=True, default=repr).encode()).hexdigest()[:16]


def plinio_frame(tb) -> Optional[str]:
    """Innermost traceback frame that lies inside the plinio package (file:function)."""
    found = None
    for fs in traceback.extract_tb(tb):
        fn = os.path.abspath(fs.filename)
        if fn.startswith(os.path.join(REPO, 'plinio') + os.sep):
            found = f"{os.path.relpath(fn, REPO)}:{fs.name}"
    return found


def must(res: Result, label: str, fn: Callable, *a, **k):
    """Run a call that the property says must succeed.  An exception becomes a discrepancy
    (bucketed by label, exception type and innermost plinio frame) and None is returned."""
    try:
        return fn(*a, **k)
    except HarnessError:
        raise
    except Exception as e:  # noqa
        where = plinio_frame(e.__traceback__) or 'outside-plinio'
        res.bad(f"{label}:raised:{type(e).__name__}@{where}", message=str(e)[:300])
        return None



def safe_grad(res: Result, label: str, out, inputs, retain_graph: bool = True):
    """torch.autograd.grad(out, inputs, allow_unused=True) where a failure of the backward pass is a
    discrepancy (bucketed like must), not a harness error: autograd errors surface in C++ frames,
    so their traceback never passes through plinio although the graph was built there.  Returns a
    tuple of None on failure, so that the caller's per-gradient checks simply see no gradient."""
    import torch
    inputs = list(inputs)
    r = must(res, label, torch.autograd.grad, out, inputs, allow_unused=True,
             retain_graph=retain_graph)
    return tuple([None] * len(inputs)) if r is None else r

# --------------------------------------------------------------------------------------
# parts and known findings
# --------------------------------------------------------------------------------------
@dataclass
class Part:
    name: str
    oracle: Callable[[Any], Result]
    strategy: Any = None                       # hypothesis strategy producing cases
    enumerate: Optional[Callable[[str], Iterable[Any]]] = None   # tier -> iterable of cases
    budget: Dict[str, int] = field(default_factory=lambda: {'quick': 100, 'thorough': 500})
    shards: Dict[str, int] = field(default_factory=lambda: {'quick': 1, 'thorough': 16})
    enum_parallel: bool = False                # split the enumeration over worker processes
    exhaustive_note: str = ''


def load_known_findings(prop: str):
    path = os.path.join(ROOT, 'known_findings.json')
    if not os.path.exists(path):
        return []
    with open(path) as f:
        data = json.load(f)
    return [e for e in data.get('entries', []) if e.get('property') == prop]


class Stats:
    def __init__(self):
        self.evaluations = 0
        self.nontrivial = set()
        self.events: Dict[str, int] = {}
        self.samples_first: List[Any] = []
        self.samples_low: List[Any] = []       # the 5 non-trivial cases with smallest hash
        self.known_hit: Dict[str, int] = {}
        self.discarded: Dict[str, int] = {}
        self.per_part: Dict[str, Dict[str, int]] = {}
        self.exhaustive_parts: Dict[str, int] = {}
        self.known_samples: Dict[str, Any] = {}

    def add(self, part: str, case, res: Result):
        pp = self.per_part.setdefault(part, {'evaluations': 0, 'nontrivial': 0, 'discarded': 0})
        if res.discarded is not None:
            self.discarded[res.discarded] = self.discarded.get(res.discarded, 0) + 1
            pp['discarded'] += 1
            return
        self.evaluations += 1
        pp['evaluations'] += 1
        for e in set(res.events):
            self.events[e] = self.events.get(e, 0) + 1
        if res.nontrivial:
            h = case_hash([part, case])
            if h not in self.nontrivial:
                self.nontrivial.add(h)
                pp['nontrivial'] += 1
                sample = {'part': part, 'case': case, 'observed': _jsonable(res.obs)}
                if len(self.samples_first) < 3:
                    self.samples_first.append((h, sample))
                self.samples_low.append((h, sample))
                self.samples_low.sort(key=lambda t: t[0])
                del self.samples_low[5:]

    # -- (de)serialisation for shard merging
    def dump(self):
        return {'evaluations': self.evaluations, 'nontrivial': sorted(self.nontrivial),
                'events': self.events, 'samples_first': self.samples_first,
                'samples_low': self.samples_low, 'known_hit': self.known_hit,
                'discarded': self.discarded, 'per_part': self.per_part,
                'exhaustive_parts': self.exhaustive_parts, 'known_samples': self.known_samples}

    def merge(self, d):
        for k, v in d.get('known_samples', {}).items():
            self.known_samples.setdefault(k, v)
        self.evaluations += d['evaluations']
        before = len(self.nontrivial)
        self.nontrivial.update(d['nontrivial'])
        for k, v in d['events'].items():
            self.events[k] = self.events.get(k, 0) + v
        for k, v in d['known_hit'].items():
            self.known_hit[k] = self.known_hit.get(k, 0) + v
        for k, v in d['discarded'].items():
            self.discarded[k] = self.discarded.get(k, 0) + v
        for p, c in d['per_part'].items():
            pp = self.per_part.setdefault(p, {'evaluations': 0, 'nontrivial': 0, 'discarded': 0})
            for k, v in c.items():
                pp[k] = pp.get(k, 0) + v
        for k, v in d['exhaustive_parts'].items():
            self.exhaustive_parts[k] = self.exhaustive_parts.get(k, 0) + v
        have = {h for h, _ in self.samples_first}
        for h, s in d['samples_first']:
            if len(self.samples_first) < 3 and h not in have:
                self.samples_first.append((h, s))
                have.add(h)
        low = {h: s for h, s in self.samples_low}
        low.update({h: s for h, s in d['samples_low']})
        self.samples_low = sorted(low.items(), key=lambda t: t[0])[:5]
        _ = before


class Check:
    """A property check: a list of Parts plus descriptive text.  Instances are created at
    import time by vp/checks/cXX.py as module attribute CHECK."""

    def __init__(self, prop: str, parts: List[Part], rule: str, assumptions: List[str],
                 level: str = 'exploration', classifiers: Optional[Dict[str, Callable]] = None):
        self.prop = prop
        self.parts = parts
        self.rule = rule
        self.assumptions = assumptions
        self.level = level
        self.classifiers = classifiers or {}

    def part(self, name: str) -> Part:
        for p in self.parts:
            if p.name == name:
                return p
        raise HarnessError(f"{self.prop}: no part named {name}")


# --------------------------------------------------------------------------------------
# evaluation of one case
# --------------------------------------------------------------------------------------
class Evaluator:
    def __init__(self, check: Check, stats: Stats):
        self.check = check
        self.stats = stats
        self.known = [e for e in load_known_findings(check.prop) if e.get('status') == 'open']

    def run(self, part: Part, case) -> (Result, List[Dict[str, Any]]):
        """Runs the oracle, updates stats, returns (result, unlisted discrepancies)."""
        try:
            # every evaluation is a pure function of the case: code under test that (wrongly or
            # rightly) draws from torch's global generator sees the same stream on every replay
            import torch
            torch.manual_seed(20260926)
            res = part.oracle(case)
        except HarnessError:
            raise
        except Exception as e:  # noqa
            where = plinio_frame(e.__traceback__)
            if where is None:
                raise HarnessError(
                    f"oracle of {self.check.prop}/{part.name} raised outside plinio: "
                    f"{type(e).__name__}: {e}\ncase={json.dumps(case, default=repr)[:2000]}\n"
                    + ''.join(traceback.format_exception(type(e), e, e.__traceback__))) from e
            res = Result()
            res.bad(f"raised:{type(e).__name__}@{where}", message=str(e)[:300])
        self.stats.add(part.name, case, res)
        unlisted = []
        for d in res.discrepancies:
            fid = self.classify(part, case, d)
            if fid is not None:
                self.stats.known_hit[fid] = self.stats.known_hit.get(fid, 0) + 1
                self.stats.known_samples.setdefault(fid, {'part': part.name, 'case': case})
            else:
                unlisted.append(d)
        return res, unlisted

    def classify(self, part: Part, case, disc) -> Optional[str]:
        for e in self.known:
            fn = self.check.classifiers.get(e.get('classifier', ''))
            if fn is None:
                continue
            try:
                if fn(part.name, case, disc):
                    return e['id']
            except Exception:  # a classifier must never turn a violation into a pass by crashing
                continue
        return None


# --------------------------------------------------------------------------------------
# drivers
# --------------------------------------------------------------------------------------
class _Found(Exception):
    pass


def drive_hypothesis(check: Check, part: Part, n: int, hseed: int, stats: Stats,
                     shrink_calls: int = 250, max_buckets: int = 4):
    """Runs the part's strategy for n examples.  Returns a list of violations
    [{'case','discrepancies','bucket'}], one per distinct bucket (root-cause proxy)."""
    import hypothesis
    from hypothesis import given, settings, HealthCheck, Phase, Verbosity
    ev = Evaluator(check, stats)
    violations = []
    excluded = set()
    for _round in range(max_buckets):
        state = {'last': None, 'since_fail': 0, 'failed_hashes': {}, 'first_fail': False}

        def body(case):
            h = None
            if state['first_fail']:
                state['since_fail'] += 1
                if state['since_fail'] > shrink_calls:
                    h = case_hash(case)
                    if h in state['failed_hashes']:
                        state['last'] = (case, state['failed_hashes'][h])
                        raise _Found()
                    return
            _, unlisted = ev.run(part, case)
            bad = [d for d in unlisted if d['kind'] not in excluded]
            if bad:
                state['first_fail'] = True
                state['failed_hashes'][h or case_hash(case)] = bad
                state['last'] = (case, bad)
                raise _Found()

        test = given(part.strategy)(body)
        test = settings(max_examples=n, database=None, deadline=None, derandomize=False,
                        report_multiple_bugs=False, print_blob=False,
                        suppress_health_check=list(HealthCheck),
                        phases=[Phase.generate, Phase.shrink],
                        verbosity=Verbosity.quiet)(test)
        test = hypothesis.seed(hseed)(test)
        try:
            test()
        except _Found:
            case, bad = state['last']
            violations.append({'part': part.name, 'case': case, 'discrepancies': bad,
                               'bucket': bad[0]['kind']})
            excluded.add(bad[0]['kind'])
            continue
        except hypothesis.errors.Unsatisfiable as e:
            raise HarnessError(f"{check.prop}/{part.name}: generator unsatisfiable: {e}")
        break
    return violations


def drive_enumeration(check: Check, part: Part, cases: Iterable[Any], stats: Stats,
                      max_buckets: int = 8):
    ev = Evaluator(check, stats)
    violations = []
    seen = set()
    n = 0
    for case in cases:
        n += 1
        _, unlisted = ev.run(part, case)
        for d in unlisted:
            if d['kind'] not in seen and len(seen) < max_buckets:
                seen.add(d['kind'])
                violations.append({'part': part.name, 'case': case, 'discrepancies': [d],
                                   'bucket': d['kind']})
    stats.exhaustive_parts[part.name] = stats.exhaustive_parts.get(part.name, 0) + n
    return violations


# -- shard worker (spawned process) ----------------------------------------------------
def _shard_worker(args):
    prop, part_name, mode, tier, n, hseed, shard, nshards = args
    try:
        setup_env()
        from .run import load_check
        check = load_check(prop)
        part = check.part(part_name)
        stats = Stats()
        if mode == 'hyp':
            viol = drive_hypothesis(check, part, n, hseed, stats,
                                    shrink_calls=250 if tier == 'quick' else 1500)
        else:
            cases = (c for i, c in enumerate(part.enumerate(tier)) if i % nshards == shard)
            viol = drive_enumeration(check, part, cases, stats)
        return {'ok': True, 'stats': stats.dump(), 'violations': viol}
    except BaseException as e:  # noqa
        return {'ok': False, 'error': ''.join(traceback.format_exception(type(e), e, e.__traceback__))}


def run_part(check: Check, part: Part, tier: str, seed: int, stats: Stats):
    """Runs the enumeration (if any) and the generated search (if any) of one part."""
    import multiprocessing as mp
    violations = []
    nshards = part.shards.get(tier, 1)
    jobs = []
    if part.enumerate is not None:
        if part.enum_parallel and nshards > 1:
            for s in range(nshards):
                jobs.append((check.prop, part.name, 'enum', tier, 0, 0, s, nshards))
        else:
            violations += drive_enumeration(check, part, part.enumerate(tier), stats)
    n = part.budget.get(tier, 0)
    if part.strategy is not None and n > 0:
        if nshards > 1:
            for s in range(nshards):
                jobs.append((check.prop, part.name, 'hyp', tier, n, seed * 1000 + s, s, nshards))
        else:
            violations += drive_hypothesis(check, part, n, seed * 1000, stats)
    if jobs:
        ctx = mp.get_context('spawn')
        with ctx.Pool(min(len(jobs), os.cpu_count() or 1, 16)) as pool:
            for out in pool.imap_unordered(_shard_worker, jobs):
                if not out['ok']:
                    raise HarnessError("shard failed:\n" + out['error'])
                # enumeration counts are merged through exhaustive_parts
                stats.merge(out['stats'])
                violations += out['violations']
    # one violation per bucket
    uniq, seen = [], set()
    for v in violations:
        if v['bucket'] not in seen:
            seen.add(v['bucket'])
            uniq.append(v)
    return uniq


# --------------------------------------------------------------------------------------
# replay files
# --------------------------------------------------------------------------------------
def replay_dir(prop: str) -> str:
    return os.path.join(ROOT, 'replays', prop)


def list_replays(prop: str) -> List[str]:
    d = replay_dir(prop)
    if not os.path.isdir(d):
        return []
    return sorted(os.path.join(d, f) for f in os.listdir(d) if f.endswith('.json'))


def write_violation(prop: str, v) -> str:
    d = os.path.join(os.environ.get('VERIF_OUT_DIR') or os.path.join(ROOT, 'out'), 'violations', prop)
    os.makedirs(d, exist_ok=True)
    h = case_hash([v['part'], v['case'], v['bucket']])
    path = os.path.join(d, f"viol-{h}.json")
    with open(path, 'w') as f:
        json.dump({'property': prop, 'part': v['part'], 'case': v['case'], 'expect': 'pass',
                   'bucket': v['bucket'], 'discrepancies': _jsonable(v['discrepancies'])},
                  f, indent=1, sort_keys=True, default=repr)
    return os.path.relpath(path, ROOT) if path.startswith(ROOT + os.sep) else path


def replay_file(check: Check, path: str, stats: Stats):
    """Runs one replay file.  Returns (unlisted discrepancies, record)."""
    with open(path) as f:
        rec = json.load(f)
    part = check.part(rec['part'])
    ev = Evaluator(check, stats)
    res, unlisted = ev.run(part, rec['case'])
    return res, unlisted, rec


# --------------------------------------------------------------------------------------
# evidence
# --------------------------------------------------------------------------------------
def write_evidence(check: Check, tier: str, seed: int, stats: Stats, n_viol: int, wall: float,
                   extra: Optional[Dict[str, Any]] = None):
    evdir = os.environ.get('VERIF_EVIDENCE_DIR') or os.path.join(ROOT, 'evidence')
    os.makedirs(evdir, exist_ok=True)
    samples = []
    have = set()
    for h, s in stats.samples_first + stats.samples_low:
        if h not in have:
            have.add(h)
            samples.append(s)
    total_disc = sum(stats.discarded.values())
    cov = {
        'evaluations': stats.evaluations,
        'distinct_nontrivial': len(stats.nontrivial),
        'rule': check.rule,
        'samples': samples,
        'exhaustive': bool(stats.exhaustive_parts) and all(
            p.strategy is None or p.budget.get(tier, 0) == 0 for p in check.parts),
        'exhaustive_parts': stats.exhaustive_parts,
        'per_part': stats.per_part,
        'event_histogram': dict(sorted(stats.events.items())),
        'known_findings_hit': stats.known_hit,
        'known_finding_first_case': stats.known_samples,
        'discarded': stats.discarded,
        'discard_ratio': (total_disc / max(1, total_disc + stats.evaluations)),
    }
    if extra:
        cov.update(extra)
    ev = {'property_id': check.prop, 'tier': tier, 'seed': seed, 'level': check.level,
          'coverage': cov, 'assumptions': check.assumptions, 'wall_s': round(wall, 2),
          'violations': n_viol}
    path = os.path.join(evdir, f"{check.prop}.json")
    tmp = path + '.tmp'
    with open(tmp, 'w') as f:
        json.dump(ev, f, indent=1, default=repr)
    os.replace(tmp, path)
    return path


def safe_deepcopy(model):
    """copy.deepcopy for models that hold non-leaf tensors (sampled coefficients with a grad_fn) as
    attributes or buffers: those are swapped for detached clones during the copy and restored."""
    import copy
    import torch
    saved = []
    for mod in model.modules():
        for store in (mod.__dict__, mod._buffers):
            for k, v in list(store.items()):
                if isinstance(v, torch.Tensor) and v.grad_fn is not None:
                    saved.append((store, k, v))
                    store[k] = v.detach().clone()
    try:
        return copy.deepcopy(model)
    finally:
        for store, k, v in saved:
            store[k] = v
