"""Confirms an independently written breaking change and runs the checks against it.

python -m vp.seedtest <seed_dir> <ID> [--props C01,C04] [--store] [--tier quick|thorough]

<seed_dir>/_seed/ must contain patch.diff (git diff -- plinio), demo.py and notes.md.
Everything runs in scratch copies of /repo's HEAD under /tmp (removed afterwards); /repo itself is
never touched.  Steps: (1) the patch applies, (2) the demonstration passes on the unchanged copy and
fails on the changed one, (3) the repository's baseline suite still passes on the changed copy,
(4) each listed check runs against the changed copy (quick, then thorough if quick stays green).
With --store the change is saved as /verif/seeded/<ID>-<n>/ with meta.json.
"""
from __future__ import annotations

import argparse
import json
import os
import shutil
import subprocess
import sys
import tempfile
import time

ROOT = os.path.dirname(os.path.dirname(os.path.abspath(__file__)))


def sh(cmd, cwd=None, env=None, timeout=3600):
    p = subprocess.run(cmd, cwd=cwd, env=env, shell=isinstance(cmd, str), capture_output=True,
                       text=True, timeout=timeout)
    return p.returncode, p.stdout, p.stderr


def clean_copy(dst, rev='HEAD'):
    os.makedirs(dst)
    rc, _, err = sh(f"git -C /repo archive {rev} | tar -x -C {dst}")
    assert rc == 0, err


def baseline(copy):
    out = os.path.join(copy, '_bl.xml')
    env = {k: v for k, v in os.environ.items() if k != 'EML_EDA_PLINIO_VERIF'}
    env.update(PYTHONPATH=copy, OMP_NUM_THREADS=os.environ.get('SEEDTEST_THREADS', '4'),
               MKL_NUM_THREADS=os.environ.get('SEEDTEST_THREADS', '4'))
    sh(f"/venv/bin/python -m pytest -ra -q -p no:cacheprovider --timeout=900 "
       f"--continue-on-collection-errors --junitxml={out}", cwd=copy, env=env, timeout=4 * 3600)
    import xml.etree.ElementTree as ET
    b = json.load(open('/root/.vp/BASELINE.json'))
    stable = b['stable_pass']
    passed = set()
    for tc in ET.parse(out).getroot().iter('testcase'):
        if not any(ch.tag in ('failure', 'error', 'skipped') for ch in tc):
            cn, n = tc.get('classname'), tc.get('name')
            parts = cn.rsplit('.', 1)
            passed.add(f"{parts[0]}.{parts[1]}::{n}" if len(parts) == 2 else f"{cn}::{n}")
    missing = [s for s in stable if s not in passed]
    return len(stable), missing


def _needs(name):
    try:
        return json.load(open(os.path.join(ROOT, 'seeded', 'needs.json'))).get(
            name, 'see notes.md')
    except OSError:
        return 'see notes.md'


def main():
    ap = argparse.ArgumentParser()
    ap.add_argument('seed_dir')
    ap.add_argument('prop')
    ap.add_argument('--props')
    ap.add_argument('--store', action='store_true')
    ap.add_argument('--name')
    ap.add_argument('--skip-baseline', action='store_true')
    ap.add_argument('--base', default='HEAD', help='commit of /repo the change was written against')
    a = ap.parse_args()
    sd = os.path.join(a.seed_dir, '_seed')
    patch = os.path.join(sd, 'patch.diff')
    demo = os.path.join(sd, 'demo.py')
    props = (a.props or a.prop).split(',')
    tmp = tempfile.mkdtemp(prefix='seedchk_')
    res = {'property': a.prop, 'seed_dir': a.seed_dir, 'props_checked': props}
    try:
        A, B = os.path.join(tmp, 'orig'), os.path.join(tmp, 'changed')
        clean_copy(A, a.base)
        clean_copy(B, a.base)
        res['base_commit'] = sh(f"git -C /repo rev-parse --short {a.base}")[1].strip()
        rc, out, err = sh(['patch', '-p1', '-d', B, '-i', patch])
        res['patch_applies'] = rc == 0
        if rc != 0:
            res['patch_error'] = (out + err)[-500:]
            print(json.dumps(res, indent=1))
            return 1
        for c in (A, B):
            os.makedirs(os.path.join(c, '_seed'), exist_ok=True)
            shutil.copy(demo, os.path.join(c, '_seed', 'demo.py'))
        # PYTHONPATH makes sure the demo imports the copy's plinio even if it does not fix sys.path
        ea = dict(os.environ, PYTHONPATH=A, OMP_NUM_THREADS='2')
        eb = dict(os.environ, PYTHONPATH=B, OMP_NUM_THREADS='2')
        ra = sh(['/venv/bin/python', '_seed/demo.py'], cwd=A, env=ea)
        rb = sh(['/venv/bin/python', '_seed/demo.py'], cwd=B, env=eb)
        res['demo_on_unchanged_exit'] = ra[0]
        res['demo_on_changed_exit'] = rb[0]
        res['demo_on_changed_tail'] = (rb[1] + rb[2])[-600:]
        res['demo_confirms'] = ra[0] == 0 and rb[0] != 0
        if not a.skip_baseline:
            n, missing = baseline(B)
            res['baseline_stable'] = n
            res['baseline_missing_after_change'] = missing
        res['checks'] = {}
        for p in props:
            for tier in ('quick', 'thorough'):
                env = dict(os.environ, VERIF_REPO=B, VERIF_SEED='1',
                           VERIF_EVIDENCE_DIR=os.path.join(tmp, 'evidence'),
                           VERIF_OUT_DIR=os.path.join(tmp, 'out'))
                t0 = time.time()
                rc, out, err = sh([os.path.join(ROOT, 'check'), p, '--tier', tier], env=env,
                                  timeout=7200)
                buckets = [l.strip() for l in err.splitlines() if 'bucket=' in l]
                res['checks'].setdefault(p, {})[tier] = {
                    'exit': rc, 'violations': len([l for l in out.splitlines()
                                                   if l.startswith('VIOLATION')]),
                    'buckets': buckets[:4], 'wall_s': round(time.time() - t0, 1)}
                if rc != 0:
                    break
        res['caught_by'] = [p for p, r in res['checks'].items()
                            if any(t['exit'] == 1 for t in r.values())]
        print(json.dumps(res, indent=1))
        if a.store:
            name = a.name or a.prop
            dst = os.path.join(ROOT, 'seeded', name)
            os.makedirs(dst, exist_ok=True)
            shutil.copy(patch, os.path.join(dst, 'patch.diff'))
            shutil.copy(demo, os.path.join(dst, 'demo.py'))
            if os.path.exists(os.path.join(sd, 'notes.md')):
                shutil.copy(os.path.join(sd, 'notes.md'), os.path.join(dst, 'notes.md'))
            meta = {'breaks_property': a.prop, 'written_by': 'independent sub-agent given only the '
                    'property text and a scratch worktree of /repo (HEAD with the fix: commits)',
                    'needs_to_manifest': _needs(name),
                    'base_commit': res['base_commit'],
                    'what_was_run': {
                        'patch_applies_to_repo_HEAD': res['patch_applies'],
                        'demo_exit_unchanged': ra[0], 'demo_exit_changed': rb[0],
                        'baseline_stable_tests_missing_after_change':
                            res.get('baseline_missing_after_change'),
                        'checks': res['checks']},
                    'caught_by': res['caught_by']}
            json.dump(meta, open(os.path.join(dst, 'meta.json'), 'w'), indent=1)
        return 0
    finally:
        shutil.rmtree(tmp, ignore_errors=True)


if __name__ == '__main__':
    sys.exit(main())
